//! Reference multigraph model shared by the Graph (C01) and StableGraph (C02) monitors, and the
//! observation sweep that compares *every* public query with it.
//!
//! Node and edge weights are unique ids, so an observed weight identifies the element it belongs
//! to; where the documentation leaves the numbering to the implementation the monitor checks the
//! stated constraint and then adopts the implementation's choice by these ids.

use crate::cx::{Cx, R};
use std::collections::BTreeMap;

#[derive(Clone, Debug, PartialEq)]
pub struct ME {
    pub src: usize,
    pub dst: usize,
    pub w: u32,
    /// insertion sequence number: adjacency lists are ordered by it (most recent first)
    pub seq: u64,
}

#[derive(Clone, Debug, PartialEq)]
pub struct Model {
    pub directed: bool,
    pub nodes: Vec<Option<u32>>,
    pub edges: Vec<Option<ME>>,
    pub next_seq: u64,
    pub next_w: u32,
}

impl Model {
    pub fn new(directed: bool) -> Model {
        Model { directed, nodes: vec![], edges: vec![], next_seq: 1, next_w: 1 }
    }
    pub fn fresh_w(&mut self) -> u32 {
        self.next_w += 1;
        self.next_w
    }
    pub fn node_count(&self) -> usize {
        self.nodes.iter().filter(|n| n.is_some()).count()
    }
    pub fn edge_count(&self) -> usize {
        self.edges.iter().filter(|e| e.is_some()).count()
    }
    pub fn live_nodes(&self) -> Vec<usize> {
        (0..self.nodes.len()).filter(|&i| self.nodes[i].is_some()).collect()
    }
    pub fn live_edges(&self) -> Vec<usize> {
        (0..self.edges.len()).filter(|&i| self.edges[i].is_some()).collect()
    }
    pub fn node_live(&self, a: usize) -> bool {
        a < self.nodes.len() && self.nodes[a].is_some()
    }
    pub fn edge_live(&self, e: usize) -> bool {
        e < self.edges.len() && self.edges[e].is_some()
    }
    pub fn e(&self, i: usize) -> &ME {
        self.edges[i].as_ref().unwrap()
    }
    fn by_seq_desc(&self, mut v: Vec<usize>) -> Vec<usize> {
        v.sort_by(|&x, &y| self.e(y).seq.cmp(&self.e(x).seq));
        v
    }
    /// edges whose *stored* source is a, most recently added first
    pub fn out_edges(&self, a: usize) -> Vec<usize> {
        self.by_seq_desc(self.live_edges().into_iter().filter(|&i| self.e(i).src == a).collect())
    }
    pub fn in_edges(&self, a: usize) -> Vec<usize> {
        self.by_seq_desc(self.live_edges().into_iter().filter(|&i| self.e(i).dst == a).collect())
    }
    /// every edge touching a (a self-loop once)
    pub fn incident(&self, a: usize) -> Vec<usize> {
        self.live_edges().into_iter().filter(|&i| self.e(i).src == a || self.e(i).dst == a).collect()
    }
    pub fn other(&self, e: usize, a: usize) -> usize {
        let x = self.e(e);
        if x.src == a { x.dst } else { x.src }
    }
    /// does edge e connect a -> b (either orientation when undirected)?
    pub fn connects(&self, e: usize, a: usize, b: usize) -> bool {
        let x = self.e(e);
        (x.src == a && x.dst == b) || (!self.directed && x.src == b && x.dst == a)
    }
    pub fn any_edge(&self, a: usize, b: usize) -> bool {
        self.live_edges().into_iter().any(|e| self.connects(e, a, b))
    }
    pub fn push_edge(&mut self, src: usize, dst: usize, w: u32) -> usize {
        let seq = self.next_seq;
        self.next_seq += 1;
        self.edges.push(Some(ME { src, dst, w, seq }));
        self.edges.len() - 1
    }
    pub fn set_edge(&mut self, idx: usize, src: usize, dst: usize, w: u32) {
        let seq = self.next_seq;
        self.next_seq += 1;
        if idx == self.edges.len() {
            self.edges.push(None);
        }
        self.edges[idx] = Some(ME { src, dst, w, seq });
    }
    pub fn reverse(&mut self) {
        for e in self.edges.iter_mut().flatten() {
            std::mem::swap(&mut e.src, &mut e.dst);
        }
    }
    pub fn structure_hash(&self) -> u64 {
        let mut h = crate::cx::H::new();
        h.add(self.directed as u64);
        for n in &self.nodes {
            h.add(n.is_some() as u64);
        }
        for e in &self.edges {
            match e {
                Some(x) => h.add((x.src * 4096 + x.dst + 1) as u64),
                None => h.add(0),
            }
        }
        h.0
    }
    pub fn describe(&self) -> String {
        format!(
            "model{{directed={}, nodes={:?}, edges={:?}}}",
            self.directed,
            self.nodes,
            self.edges.iter().map(|e| e.as_ref().map(|x| (x.src, x.dst, x.w))).collect::<Vec<_>>()
        )
    }
    /// weight -> edge index
    pub fn edge_by_w(&self) -> BTreeMap<u32, usize> {
        self.live_edges().into_iter().map(|i| (self.e(i).w, i)).collect()
    }
    pub fn node_by_w(&self) -> BTreeMap<u32, usize> {
        self.live_nodes().into_iter().map(|i| (self.nodes[i].unwrap(), i)).collect()
    }
}

pub fn cmp_list<T: PartialEq + Ord + std::fmt::Debug + Clone>(cx: &mut Cx, mut got: Vec<T>, mut want: Vec<T>, ordered: bool, id: &str, ctx: impl Fn() -> String) -> R {
    if !ordered {
        got.sort();
        want.sort();
    }
    cx.ensure(got == want, id, || format!("{}: observed {:?}, model {:?}", ctx(), got, want))
}

/// Which nodes get the per-node / per-pair part of the sweep (all of them for small graphs).
pub fn sweep_nodes(m: &Model, salt: usize) -> Vec<usize> {
    let live = m.live_nodes();
    if live.len() <= 16 {
        live
    } else {
        let k = live.len() / 8;
        live.into_iter().enumerate().filter(|(i, _)| (i + salt) % k == 0).map(|(_, v)| v).collect()
    }
}

/// Generates `fn $name<Ty, Ix>(cx, g: &$G<u32, u32, Ty, Ix>, m: &Model, ordered, salt)`:
/// the observation sweep over every public query of a Graph-like type.
#[macro_export]
macro_rules! gen_sweep {
    ($name:ident, $G:ident, $tn:expr, graph_only: $graph_only:tt) => {
        pub fn $name<Ty: petgraph::EdgeType, Ix: petgraph::graph::IndexType>(
            cx: &mut $crate::cx::Cx,
            g: &$G<u32, u32, Ty, Ix>,
            m: &$crate::dsmodel::Model,
            ordered: bool,
            salt: usize,
        ) -> $crate::cx::R {
            use petgraph::graph::{EdgeIndex, NodeIndex};
            #[allow(unused_imports)]
            use petgraph::visit::{EdgeRef, IntoEdgeReferences};
            use petgraph::Direction::{Incoming, Outgoing};
            use $crate::dsmodel::cmp_list;
            let t = $tn;
            let ni = |i: usize| NodeIndex::<Ix>::new(i);
            let ei = |i: usize| EdgeIndex::<Ix>::new(i);
            let imax = <Ix as petgraph::graph::IndexType>::max().index();
            cx.ensure(g.node_count() == m.node_count(), &format!("{}:node_count", t), || format!("node_count() = {}, model {}", g.node_count(), m.node_count()))?;
            cx.ensure(g.edge_count() == m.edge_count(), &format!("{}:edge_count", t), || format!("edge_count() = {}, model {}", g.edge_count(), m.edge_count()))?;
            cx.ensure(g.is_directed() == m.directed, &format!("{}:is_directed", t), || "wrong".into())?;
            // ---- per index: weights / endpoints, live and absent
            let nb = m.nodes.len();
            let mut probe: Vec<usize> = (0..nb + 2).collect();
            probe.push(imax);
            if nb > 40 {
                probe = probe.into_iter().filter(|&i| i % 7 == salt % 7 || i >= nb || !m.node_live(i)).collect();
            }
            for &i in &probe {
                if i > imax {
                    continue;
                }
                let want = if i < nb { m.nodes[i] } else { None };
                let got = g.node_weight(ni(i)).copied();
                cx.ensure(got == want, &format!("{}:node_weight", t), || format!("node_weight({}) = {:?}, model {:?}", i, got, want))?;
            }
            let eb = m.edges.len();
            let mut eprobe: Vec<usize> = (0..eb + 2).collect();
            eprobe.push(imax);
            if eb > 60 {
                eprobe = eprobe.into_iter().filter(|&i| i % 7 == salt % 7 || i >= eb || !m.edge_live(i)).collect();
            }
            for &i in &eprobe {
                if i > imax {
                    continue;
                }
                let want = if i < eb { m.edges[i].as_ref().map(|x| (x.src, x.dst, x.w)) } else { None };
                let gw = g.edge_weight(ei(i)).copied();
                let ge = g.edge_endpoints(ei(i)).map(|(a, b)| (a.index(), b.index()));
                cx.ensure(gw == want.map(|x| x.2), &format!("{}:edge_weight", t), || format!("edge_weight({}) = {:?}, model {:?}", i, gw, want))?;
                cx.ensure(ge == want.map(|x| (x.0, x.1)), &format!("{}:edge_endpoints", t), || format!("edge_endpoints({}) = {:?}, model {:?}", i, ge, want))?;
            }
            // ---- whole-graph iterators
            let live_n = m.live_nodes();
            let live_e = m.live_edges();
            let cap_n = nb + 3;
            let cap_e = eb + 3;
            use $crate::iterck::{adapters, double_ended, drain};
            let got: Vec<usize> = drain(cx, g.node_indices(), cap_n, &format!("{}:node_indices", t))?.into_iter().map(|x| x.index()).collect();
            cx.ensure(got == live_n, &format!("{}:node_indices", t), || format!("node_indices {:?}, model {:?}", got, live_n))?;
            let mut got: Vec<usize> = drain(cx, g.node_indices().rev(), cap_n, &format!("{}:node_indices.rev", t))?.into_iter().map(|x| x.index()).collect();
            got.reverse();
            cx.ensure(got == live_n, &format!("{}:node_indices.rev", t), || format!("{:?} vs {:?}", got, live_n))?;
            let got: Vec<usize> = drain(cx, g.edge_indices(), cap_e, &format!("{}:edge_indices", t))?.into_iter().map(|x| x.index()).collect();
            cx.ensure(got == live_e, &format!("{}:edge_indices", t), || format!("edge_indices {:?}, model {:?}", got, live_e))?;
            let mut got: Vec<usize> = drain(cx, g.edge_indices().rev(), cap_e, &format!("{}:edge_indices.rev", t))?.into_iter().map(|x| x.index()).collect();
            got.reverse();
            cx.ensure(got == live_e, &format!("{}:edge_indices.rev", t), || format!("{:?} vs {:?}", got, live_e))?;
            let got: Vec<u32> = drain(cx, g.node_weights(), cap_n, &format!("{}:node_weights", t))?.into_iter().copied().collect();
            let want: Vec<u32> = live_n.iter().map(|&i| m.nodes[i].unwrap()).collect();
            cx.ensure(got == want, &format!("{}:node_weights", t), || format!("{:?} vs {:?}", got, want))?;
            let got: Vec<u32> = drain(cx, g.edge_weights(), cap_e, &format!("{}:edge_weights", t))?.into_iter().copied().collect();
            let want: Vec<u32> = live_e.iter().map(|&i| m.e(i).w).collect();
            cx.ensure(got == want, &format!("{}:edge_weights", t), || format!("{:?} vs {:?}", got, want))?;
            let got: Vec<(usize, usize, usize, u32)> = drain(cx, g.edge_references(), cap_e, &format!("{}:edge_references", t))?.into_iter().map(|e| (e.id().index(), e.source().index(), e.target().index(), *e.weight())).collect();
            let want: Vec<(usize, usize, usize, u32)> = live_e.iter().map(|&i| (i, m.e(i).src, m.e(i).dst, m.e(i).w)).collect();
            cx.ensure(got == want, &format!("{}:edge_references", t), || format!("{:?} vs {:?}", got, want))?;
            let mut got: Vec<(usize, usize, usize, u32)> = drain(cx, g.edge_references().rev(), cap_e, &format!("{}:edge_references.rev", t))?.into_iter().map(|e| (e.id().index(), e.source().index(), e.target().index(), *e.weight())).collect();
            got.reverse();
            cx.ensure(got == want, &format!("{}:edge_references.rev", t), || format!("{:?} vs {:?}", got, want))?;
            {
                use petgraph::visit::{IntoNodeReferences, NodeRef};
                let got: Vec<(usize, u32)> = drain(cx, g.node_references(), cap_n, &format!("{}:node_references", t))?.into_iter().map(|r| (r.id().index(), *r.weight())).collect();
                let want: Vec<(usize, u32)> = live_n.iter().map(|&i| (i, m.nodes[i].unwrap())).collect();
                cx.ensure(got == want, &format!("{}:node_references", t), || format!("{:?} vs {:?}", got, want))?;
                // the rest of the Iterator / DoubleEndedIterator contract of the whole-graph iterators
                adapters(cx, || g.node_indices(), |x| x.index(), cap_n, &format!("{}:node_indices", t), salt)?;
                adapters(cx, || g.edge_indices(), |x| x.index(), cap_e, &format!("{}:edge_indices", t), salt)?;
                adapters(cx, || g.edge_references(), |e| (e.id().index(), e.source().index(), e.target().index(), *e.weight()), cap_e, &format!("{}:edge_references", t), salt)?;
                adapters(cx, || g.node_references(), |r| (r.id().index(), *r.weight()), cap_n, &format!("{}:node_references", t), salt)?;
                adapters(cx, || g.node_weights(), |w| *w, cap_n, &format!("{}:node_weights", t), salt)?;
                adapters(cx, || g.edge_weights(), |w| *w, cap_e, &format!("{}:edge_weights", t), salt)?;
                double_ended(cx, || g.node_indices(), |x| x.index(), cap_n, &format!("{}:node_indices", t), salt)?;
                double_ended(cx, || g.edge_indices(), |x| x.index(), cap_e, &format!("{}:edge_indices", t), salt + 1)?;
                double_ended(cx, || g.edge_references(), |e| e.id().index(), cap_e, &format!("{}:edge_references", t), salt + 2)?;
                double_ended(cx, || g.node_references(), |r| r.id().index(), cap_n, &format!("{}:node_references", t), salt + 3)?;
            }
            gen_sweep!(@graph_only $graph_only, {
                use petgraph::visit::IntoNodeReferences;
                use $crate::iterck::drain_exact;
                drain_exact(cx, g.node_indices(), cap_n, &format!("{}:node_indices", t))?;
                drain_exact(cx, g.edge_indices(), cap_e, &format!("{}:edge_indices", t))?;
                drain_exact(cx, g.edge_references(), cap_e, &format!("{}:edge_references", t))?;
                drain_exact(cx, g.node_references(), cap_n, &format!("{}:node_references", t))?;
            });
            // ---- per node
            let mut ns = $crate::dsmodel::sweep_nodes(m, salt);
            // absent nodes: a vacant one, the bound, beyond
            if let Some(v) = (0..nb).find(|&i| !m.node_live(i)) {
                ns.push(v);
            }
            ns.push(nb);
            if nb + 1 <= imax {
                ns.push(nb + 1);
            }
            let cap = eb + 3;
            for &a in &ns {
                if a > imax {
                    continue;
                }
                let live = m.node_live(a);
                let out = if live { m.out_edges(a) } else { vec![] };
                let inn = if live { m.in_edges(a) } else { vec![] };
                let inc = if live { m.incident(a) } else { vec![] };
                let ctx = |s: &str| format!("{}({})", s, a);
                // expected lists
                let (want_out, want_in): (Vec<(usize, usize, usize, u32)>, Vec<(usize, usize, usize, u32)>) = if m.directed {
                    (
                        out.iter().map(|&e| (e, a, m.e(e).dst, m.e(e).w)).collect(),
                        inn.iter().map(|&e| (e, m.e(e).src, a, m.e(e).w)).collect(),
                    )
                } else {
                    (
                        inc.iter().map(|&e| (e, a, m.other(e, a), m.e(e).w)).collect(),
                        inc.iter().map(|&e| (e, m.other(e, a), a, m.e(e).w)).collect(),
                    )
                };
                let ord = ordered && m.directed;
                macro_rules! er {
                    () => {
                        |e| (e.id().index(), e.source().index(), e.target().index(), *e.weight())
                    };
                }
                let got: Vec<_> = drain(cx, g.edges(ni(a)), cap, &format!("{}:edges", t))?.into_iter().map(er!()).collect();
                cmp_list(cx, got, want_out.clone(), ord, &format!("{}:edges", t), || ctx("edges"))?;
                let got: Vec<_> = drain(cx, g.edges_directed(ni(a), Outgoing), cap, &format!("{}:edges_directed", t))?.into_iter().map(er!()).collect();
                cmp_list(cx, got, want_out.clone(), ord, &format!("{}:edges_directed(Outgoing)", t), || ctx("edges_directed/Outgoing"))?;
                let got: Vec<_> = drain(cx, g.edges_directed(ni(a), Incoming), cap, &format!("{}:edges_directed", t))?.into_iter().map(er!()).collect();
                cmp_list(cx, got, want_in.clone(), ord, &format!("{}:edges_directed(Incoming)", t), || ctx("edges_directed/Incoming"))?;
                let got: Vec<usize> = drain(cx, g.neighbors(ni(a)), cap, &format!("{}:neighbors", t))?.into_iter().map(|x| x.index()).collect();
                cmp_list(cx, got, want_out.iter().map(|x| x.2).collect(), ord, &format!("{}:neighbors", t), || ctx("neighbors"))?;
                let got: Vec<usize> = drain(cx, g.neighbors_directed(ni(a), Outgoing), cap, &format!("{}:neighbors_directed", t))?.into_iter().map(|x| x.index()).collect();
                cmp_list(cx, got, want_out.iter().map(|x| x.2).collect(), ord, &format!("{}:neighbors_directed(Outgoing)", t), || ctx("neighbors_directed/Outgoing"))?;
                let got: Vec<usize> = drain(cx, g.neighbors_directed(ni(a), Incoming), cap, &format!("{}:neighbors_directed", t))?.into_iter().map(|x| x.index()).collect();
                cmp_list(cx, got, want_in.iter().map(|x| x.1).collect(), ord, &format!("{}:neighbors_directed(Incoming)", t), || ctx("neighbors_directed/Incoming"))?;
                let got: Vec<usize> = drain(cx, g.neighbors_undirected(ni(a)), cap, &format!("{}:neighbors_undirected", t))?.into_iter().map(|x| x.index()).collect();
                cmp_list(cx, got, inc.iter().map(|&e| m.other(e, a)).collect(), false, &format!("{}:neighbors_undirected", t), || ctx("neighbors_undirected"))?;
                if (a + salt) % 3 == 0 {
                    adapters(cx, || g.edges(ni(a)), er!(), cap, &format!("{}:edges", t), salt)?;
                    adapters(cx, || g.edges_directed(ni(a), Incoming), er!(), cap, &format!("{}:edges_directed(Incoming)", t), salt)?;
                    adapters(cx, || g.neighbors(ni(a)), |x| x.index(), cap, &format!("{}:neighbors", t), salt)?;
                    adapters(cx, || g.neighbors_directed(ni(a), Incoming), |x| x.index(), cap, &format!("{}:neighbors_directed(Incoming)", t), salt)?;
                    adapters(cx, || g.neighbors_undirected(ni(a)), |x| x.index(), cap, &format!("{}:neighbors_undirected", t), salt)?;
                }
                // detached walker: same (edge, node) sequence as edges(a)
                let mut w = g.neighbors(ni(a)).detach();
                let mut got = vec![];
                while let Some((e, n)) = w.next(g) {
                    got.push((e.index(), n.index()));
                    if got.len() > cap {
                        break;
                    }
                }
                cmp_list(cx, got, want_out.iter().map(|x| (x.0, x.2)).collect(), ord, &format!("{}:WalkNeighbors", t), || ctx("neighbors().detach()"))?;
                let mut w = g.neighbors_directed(ni(a), Incoming).detach();
                let mut got = vec![];
                while let Some(n) = w.next_node(g) {
                    got.push(n.index());
                    if got.len() > cap {
                        break;
                    }
                }
                cmp_list(cx, got, want_in.iter().map(|x| x.1).collect(), ord, &format!("{}:WalkNeighbors(Incoming)", t), || ctx("neighbors_directed(Incoming).detach()"))?;
                gen_sweep!(@graph_only $graph_only, {
                    // raw linked lists: stored orientation, most recent first
                    for (dir, lst) in [(Outgoing, &out), (Incoming, &inn)] {
                        let mut got = vec![];
                        let mut cur = g.first_edge(ni(a), dir);
                        while let Some(e) = cur {
                            got.push(e.index());
                            if got.len() > cap {
                                break;
                            }
                            cur = g.next_edge(e, dir);
                        }
                        cmp_list(cx, got, lst.clone(), ordered, &format!("{}:first_edge/next_edge", t), || format!("list of node {} dir {:?}", a, dir))?;
                    }
                });
                // ---- pairs
                let mut others = $crate::dsmodel::sweep_nodes(m, salt + 1);
                others.push(nb);
                for &b in &others {
                    if b > imax {
                        continue;
                    }
                    let both = live && m.node_live(b);
                    let conn: Vec<usize> = if both { live_e.iter().copied().filter(|&e| m.connects(e, a, b)).collect() } else { vec![] };
                    let fe = g.find_edge(ni(a), ni(b)).map(|e| e.index());
                    match fe {
                        Some(e) => cx.ensure(conn.contains(&e), &format!("{}:find_edge-wrong-edge", t), || format!("find_edge({},{}) = {}, connecting edges are {:?}", a, b, e, conn))?,
                        None => cx.ensure(conn.is_empty(), &format!("{}:find_edge-missed", t), || format!("find_edge({},{}) = None, connecting edges are {:?}", a, b, conn))?,
                    }
                    let ce = g.contains_edge(ni(a), ni(b));
                    cx.ensure(ce == !conn.is_empty(), &format!("{}:contains_edge", t), || format!("contains_edge({},{}) = {}, connecting edges {:?}", a, b, ce, conn))?;
                    let either: Vec<usize> = if both { live_e.iter().copied().filter(|&e| (m.e(e).src == a && m.e(e).dst == b) || (m.e(e).src == b && m.e(e).dst == a)).collect() } else { vec![] };
                    match g.find_edge_undirected(ni(a), ni(b)) {
                        Some((e, d)) => {
                            let e = e.index();
                            let ok = m.edge_live(e) && if d == Outgoing { m.e(e).src == a && m.e(e).dst == b } else { m.e(e).src == b && m.e(e).dst == a };
                            cx.ensure(ok, &format!("{}:find_edge_undirected-wrong", t), || format!("find_edge_undirected({},{}) = ({}, {:?}), model edge {:?}", a, b, e, d, m.edges.get(e)))?;
                        }
                        None => cx.ensure(either.is_empty(), &format!("{}:find_edge_undirected-missed", t), || format!("find_edge_undirected({},{}) = None, edges between them {:?}", a, b, either))?,
                    }
                    let got: Vec<usize> = drain(cx, g.edges_connecting(ni(a), ni(b)), cap, &format!("{}:edges_connecting", t))?.into_iter().map(|e| e.id().index()).collect();
                    let want: Vec<usize> = want_out.iter().filter(|x| x.2 == b).map(|x| x.0).collect();
                    cmp_list(cx, got, want, ord, &format!("{}:edges_connecting", t), || format!("edges_connecting({},{})", a, b))?;
                }
            }
            // ---- externals
            for dir in [Outgoing, Incoming] {
                let mut got: Vec<usize> = drain(cx, g.externals(dir), cap_n, &format!("{}:externals", t))?.into_iter().map(|x| x.index()).collect();
                adapters(cx, || g.externals(dir), |x| x.index(), cap_n, &format!("{}:externals", t), salt)?;
                got.sort_unstable();
                let want: Vec<usize> = live_n
                    .iter()
                    .copied()
                    .filter(|&a| {
                        if m.directed {
                            if dir == Outgoing { m.out_edges(a).is_empty() } else { m.in_edges(a).is_empty() }
                        } else {
                            m.incident(a).is_empty()
                        }
                    })
                    .collect();
                cx.ensure(got == want, &format!("{}:externals", t), || format!("externals({:?}) = {:?}, model {:?}", dir, got, want))?;
            }
            gen_sweep!(@graph_only $graph_only, {
                let rn: Vec<u32> = g.raw_nodes().iter().map(|n| n.weight).collect();
                let want: Vec<u32> = m.nodes.iter().map(|n| n.unwrap()).collect();
                cx.ensure(rn == want, &format!("{}:raw_nodes", t), || format!("{:?} vs {:?}", rn, want))?;
                let re: Vec<(usize, usize, u32)> = g.raw_edges().iter().map(|e| (e.source().index(), e.target().index(), e.weight)).collect();
                let want: Vec<(usize, usize, u32)> = m.edges.iter().map(|e| { let e = e.as_ref().unwrap(); (e.src, e.dst, e.w) }).collect();
                cx.ensure(re == want, &format!("{}:raw_edges", t), || format!("{:?} vs {:?}", re, want))?;
            });
            // ---- Index
            if let Some(&a) = live_n.first() {
                cx.ensure(g[ni(a)] == m.nodes[a].unwrap(), &format!("{}:Index<NodeIndex>", t), || "g[a] wrong".into())?;
            }
            if let Some(&e) = live_e.last() {
                cx.ensure(g[ei(e)] == m.e(e).w, &format!("{}:Index<EdgeIndex>", t), || "g[e] wrong".into())?;
            }
            Ok(())
        }
    };
    (@graph_only yes, $body:block) => { $body };
    (@graph_only no, $body:block) => {};
}
