//! Monitoring context: counts what was observed, records violations with signatures,
//! runs cases under `catch_unwind`, re-runs a violating case verbosely to capture its
//! explicit history, and prints one JSON summary line per process.

use crate::rng::Rng;
use serde_json::{json, Value};
use std::cell::RefCell;
use std::collections::{BTreeMap, HashSet};
use std::fmt::Debug;
use std::panic::{catch_unwind, AssertUnwindSafe};
use std::sync::atomic::{AtomicU64, Ordering};

/// Early exit from a case after a violation made continuing meaningless.
#[derive(Debug)]
pub struct Stop;
pub type R<T = ()> = Result<T, Stop>;

#[derive(Clone, Debug)]
pub struct PanicInfo {
    pub msg: String,
    pub file: String,
    pub line: u32,
    /// a petgraph frame sits between the panic and the first harness frame (covers
    /// `#[track_caller]` library functions, whose panic location is the harness call site)
    pub via_library: bool,
}
impl PanicInfo {
    pub fn in_library(&self) -> bool {
        self.via_library
            || !self.file.contains("/verif/") && !self.file.starts_with("src/")
            || self.file.contains("/repo/")
    }
    pub fn short(&self) -> String {
        let f = self.file.rsplit("/repo/").next().unwrap_or(&self.file);
        format!("{}:{}: {}", f, self.line, self.msg)
    }
    /// file name (no line) + message with digits removed - stable across unrelated edits
    pub fn sig(&self) -> String {
        let f = self.file.rsplit("/repo/").next().unwrap_or(&self.file);
        let f = match f.find("/registry/src/") {
            Some(i) => f[i + 14..].splitn(2, '/').nth(1).unwrap_or(f),
            None => f,
        };
        let m: String = self
            .msg
            .chars()
            .filter(|c| !c.is_ascii_digit())
            .take(60)
            .collect();
        format!("{}: {}", f, m.trim())
    }
}

thread_local! {
    static LAST_PANIC: RefCell<Option<PanicInfo>> = const { RefCell::new(None) };
    /// > 0 while inside an explicit `catch` (a panic is a possible documented outcome there and
    /// the driver judges it itself): no backtrace is taken
    static EXPLICIT_DEPTH: std::cell::Cell<u32> = const { std::cell::Cell::new(0) };
}

fn panic_came_through_library() -> bool {
    let bt = std::backtrace::Backtrace::force_capture().to_string();
    for line in bt.lines() {
        let l = line.trim_start();
        // frame lines look like "12: petgraph::graph_impl::Graph<..>::add_node"
        if let Some(pos) = l.find(": ") {
            let sym = &l[pos + 2..];
            if sym.starts_with("petgraph::") || sym.starts_with("<petgraph::") {
                return true;
            }
            if sym.starts_with("pgmon::props") || sym.starts_with("pgmon::enc") {
                return false;
            }
        }
    }
    false
}

pub static PROGRESS_CASE: AtomicU64 = AtomicU64::new(u64::MAX);
pub static PROGRESS_TICK: AtomicU64 = AtomicU64::new(0);

pub fn install_panic_hook() {
    let loud = std::env::var("PGMON_PANIC_PRINT").is_ok();
    std::panic::set_hook(Box::new(move |info| {
        let msg = if let Some(s) = info.payload().downcast_ref::<&str>() {
            s.to_string()
        } else if let Some(s) = info.payload().downcast_ref::<String>() {
            s.clone()
        } else {
            "<non-string panic>".to_string()
        };
        let (file, line) = info
            .location()
            .map(|l| (l.file().to_string(), l.line()))
            .unwrap_or(("?".into(), 0));
        if loud {
            eprintln!("panic at {}:{}: {}", file, line, msg);
        }
        if msg.starts_with("unsafe precondition(s) violated") || msg.contains("cannot unwind") || msg.contains("panic in a destructor") {
            // std's debug UB checks ("unsafe precondition(s) violated") and panics in no-unwind contexts abort the
            // process right after this hook: say why and where, for the driver's process-abort protocol
            eprintln!("non-unwinding panic at {}:{}: {}", file, line, msg);
            if !cfg!(miri) {
                eprintln!("{}", std::backtrace::Backtrace::force_capture());
            }
        }
        let via_library = if cfg!(miri) || EXPLICIT_DEPTH.with(|d| d.get()) > 0 {
            false
        } else {
            panic_came_through_library()
        };
        LAST_PANIC.with(|p| {
            *p.borrow_mut() = Some(PanicInfo {
                msg,
                file,
                line,
                via_library,
            })
        });
    }));
}

/// Run `f`, catching a panic.  Used where a panic is a *possible documented outcome*.
pub fn catch<T>(f: impl FnOnce() -> T) -> Result<T, PanicInfo> {
    EXPLICIT_DEPTH.with(|d| d.set(d.get() + 1));
    let r = catch_any(f);
    EXPLICIT_DEPTH.with(|d| d.set(d.get() - 1));
    r
}

/// Outermost catch of a whole case: an escaping panic is classified (library vs harness).
pub fn catch_any<T>(f: impl FnOnce() -> T) -> Result<T, PanicInfo> {
    LAST_PANIC.with(|p| *p.borrow_mut() = None);
    match catch_unwind(AssertUnwindSafe(f)) {
        Ok(v) => Ok(v),
        Err(_) => Err(LAST_PANIC
            .with(|p| p.borrow_mut().take())
            .unwrap_or(PanicInfo {
                msg: "?".into(),
                file: "?".into(),
                line: 0,
                via_library: false,
            })),
    }
}

#[derive(Clone, Debug)]
pub struct Viol {
    pub sig: String,
    pub what: String,
    pub case: u64,
    pub log: Vec<String>,
    pub count: u64,
}

pub struct Cx {
    pub prop: &'static str,
    pub seed: u64,
    pub thorough: bool,
    pub build: String,
    pub case: u64,
    pub config: String,
    pub verbose: bool,
    pub logv: Vec<String>,
    pub evaluations: u64,
    pub comparisons: u64,
    pub ops: u64,
    pub inconclusive: u64,
    pub hashes: HashSet<u64>,
    pub counters: BTreeMap<String, u64>,
    pub samples: Vec<Value>,
    pub want_samples: usize,
    pub viols: Vec<Viol>,
    viol_index: BTreeMap<String, usize>,
    pub case_viols: u32,
    pub harness_errors: Vec<String>,
    pub small: bool, // reduced sizes (Miri / valgrind legs)
    /// operations a leg asks the drivers to leave out (`--skip-op NAME`)
    pub skip_ops: Vec<String>,
    pub tick: u64,
}

impl Cx {
    pub fn new(prop: &'static str, seed: u64, thorough: bool, build: &str) -> Cx {
        Cx {
            prop,
            seed,
            thorough,
            build: build.to_string(),
            case: 0,
            config: String::new(),
            verbose: false,
            logv: vec![],
            evaluations: 0,
            comparisons: 0,
            ops: 0,
            inconclusive: 0,
            hashes: HashSet::new(),
            counters: BTreeMap::new(),
            samples: vec![],
            want_samples: 0,
            viols: vec![],
            viol_index: BTreeMap::new(),
            case_viols: 0,
            harness_errors: vec![],
            small: false,
            skip_ops: vec![],
            tick: 0,
        }
    }

    #[inline]
    pub fn skips(&self, op: &str) -> bool {
        self.skip_ops.iter().any(|s| s == op)
    }
    pub fn log(&mut self, f: impl FnOnce() -> String) {
        if self.verbose {
            let s = f();
            self.logv.push(s);
        }
    }

    pub fn count(&mut self, key: &str) {
        self.count_n(key, 1);
    }
    pub fn count_n(&mut self, key: &str, n: u64) {
        if let Some(v) = self.counters.get_mut(key) {
            *v += n;
        } else {
            self.counters.insert(key.to_string(), n);
        }
    }

    /// Register the current case's structural hash; `nontrivial` by the property's rule.
    pub fn note_case(&mut self, hash: u64, nontrivial: bool) {
        if nontrivial {
            self.hashes.insert(hash);
        }
    }

    pub fn violation(&mut self, id: &str, what: String) {
        let sig = format!("{}/{}/{}", self.prop, self.config, id);
        self.case_viols += 1;
        self.log(|| format!("!! VIOLATION {} :: {}", sig, what));
        if let Some(&i) = self.viol_index.get(&sig) {
            self.viols[i].count += 1;
            return;
        }
        self.viol_index.insert(sig.clone(), self.viols.len());
        self.viols.push(Viol {
            sig,
            what,
            case: self.case,
            log: vec![],
            count: 1,
        });
    }

    /// The basic monitor assertion.  `id` names the assertion (part of the signature).
    #[inline]
    pub fn ensure(&mut self, cond: bool, id: &str, detail: impl FnOnce() -> String) -> R {
        self.comparisons += 1;
        if cond {
            Ok(())
        } else {
            let d = detail();
            self.violation(id, d);
            Err(Stop)
        }
    }

    #[inline]
    pub fn same<T: PartialEq + Debug>(&mut self, got: &T, want: &T, id: &str) -> R {
        self.comparisons += 1;
        if got == want {
            Ok(())
        } else {
            self.violation(id, format!("observed {:?}, model/oracle says {:?}", got, want));
            Err(Stop)
        }
    }

    pub fn inconclusive(&mut self, why: &str) {
        self.inconclusive += 1;
        self.count(&format!("inconclusive:{}", why));
    }
}

pub static TRACE_CASES: std::sync::atomic::AtomicBool = std::sync::atomic::AtomicBool::new(false);

/// Run cases `from..to`.  `f` is the per-case driver.
pub fn run_cases(cx: &mut Cx, from: u64, to: u64, f: &dyn Fn(&mut Cx, &mut Rng) -> R) {
    for case in from..to {
        PROGRESS_CASE.store(case, Ordering::Relaxed);
        PROGRESS_TICK.fetch_add(1, Ordering::Relaxed);
        if TRACE_CASES.load(Ordering::Relaxed) {
            // crash localisation: the driver re-runs a shard that died without a summary with this flag on
            use std::io::Write;
            println!("{{\"t\":\"case\",\"case\":{}}}", case);
            let _ = std::io::stdout().flush();
        }
        run_one(cx, case, f, false);
    }
    PROGRESS_CASE.store(u64::MAX, Ordering::Relaxed);
}

fn run_one(cx: &mut Cx, case: u64, f: &dyn Fn(&mut Cx, &mut Rng) -> R, rerun: bool) {
    cx.case = case;
    cx.case_viols = 0;
    cx.config.clear();
    let before = cx.viols.len();
    let take_sample = !rerun && cx.samples.len() < cx.want_samples;
    if take_sample {
        cx.verbose = true;
        cx.logv.clear();
    }
    let mut rng = Rng::for_case(cx.seed, cx.prop, case);
    let res = catch_any(|| f(cx, &mut rng));
    if !rerun {
        cx.evaluations += 1;
    }
    if let Err(p) = &res {
        if p.in_library() {
            cx.violation(
                &format!("unexpected-panic[{}]", p.sig()),
                format!("library panicked: {}", p.short()),
            );
        } else {
            cx.harness_errors
                .push(format!("case {}: harness panic {}", case, p.short()));
        }
    }
    if take_sample {
        cx.verbose = false;
        let log = std::mem::take(&mut cx.logv);
        if !log.is_empty() {
            cx.samples.push(json!({"case": case, "config": cx.config, "history": log}));
        }
    }
    if !rerun && cx.viols.len() > before {
        // capture the explicit history of this case for the replay files
        let saved_counts: (u64, u64, u64) = (cx.comparisons, cx.ops, cx.inconclusive);
        let saved_counters = cx.counters.clone();
        let nv = cx.viols.len();
        let saved_viol_counts: Vec<u64> = cx.viols.iter().map(|v| v.count).collect();
        cx.verbose = true;
        cx.logv.clear();
        run_one(cx, case, f, true);
        cx.verbose = false;
        let log = std::mem::take(&mut cx.logv);
        for (i, c) in saved_viol_counts.iter().enumerate().take(nv) {
            cx.viols[i].count = *c;
        }
        for v in cx.viols[before..].iter_mut() {
            v.log = log.clone();
        }
        cx.comparisons = saved_counts.0;
        cx.ops = saved_counts.1;
        cx.inconclusive = saved_counts.2;
        cx.counters = saved_counters;
    }
}

pub fn sites_snapshot() -> BTreeMap<String, u64> {
    let mut m = BTreeMap::new();
    for (i, name) in petgraph::verif::SITE_NAMES.iter().enumerate() {
        m.insert(name.to_string(), petgraph::verif::count_index(i));
    }
    m
}

pub fn summary(cx: &Cx, wall_s: f64, hashes_path: Option<&str>) -> Value {
    if let Some(p) = hashes_path {
        let mut bytes = Vec::with_capacity(cx.hashes.len() * 8);
        let mut hs: Vec<u64> = cx.hashes.iter().copied().collect();
        hs.sort_unstable();
        for h in hs {
            bytes.extend_from_slice(&h.to_le_bytes());
        }
        let _ = std::fs::write(p, bytes);
    }
    json!({
        "t": "summary",
        "property": cx.prop,
        "seed": cx.seed,
        "build": cx.build,
        "evaluations": cx.evaluations,
        "comparisons": cx.comparisons,
        "ops": cx.ops,
        "inconclusive": cx.inconclusive,
        "distinct_nontrivial_in_shard": cx.hashes.len(),
        "hashes_file": hashes_path,
        "counters": cx.counters,
        "samples": cx.samples,
        "sites": sites_snapshot(),
        "harness_errors": cx.harness_errors,
        "violations": cx.viols.iter().map(|v| json!({
            "sig": v.sig, "what": v.what, "case": v.case, "count": v.count, "history": v.log,
        })).collect::<Vec<_>>(),
        "wall_s": wall_s,
    })
}

/// FNV-style incremental hasher for case structure hashes (not hashbrown: must be stable).
#[derive(Clone, Copy)]
pub struct H(pub u64);
impl H {
    pub fn new() -> H {
        H(0xcbf2_9ce4_8422_2325)
    }
    #[inline]
    pub fn add(&mut self, x: u64) {
        self.0 = (self.0 ^ x).wrapping_mul(0x1000_0000_01b3).rotate_left(23) ^ (x >> 7);
    }
    pub fn add_str(&mut self, s: &str) {
        for b in s.bytes() {
            self.add(b as u64);
        }
    }
}
impl Default for H {
    fn default() -> Self {
        H::new()
    }
}
