//! Deterministic PRNG (SplitMix64 seeding a xoshiro256**).  Every case derives its own
//! stream from (seed, property, case index) so any single case can be re-run alone.

#[derive(Clone, Debug)]
pub struct Rng {
    s: [u64; 4],
}

pub fn splitmix(x: &mut u64) -> u64 {
    *x = x.wrapping_add(0x9E37_79B9_7F4A_7C15);
    let mut z = *x;
    z = (z ^ (z >> 30)).wrapping_mul(0xBF58_476D_1CE4_E5B9);
    z = (z ^ (z >> 27)).wrapping_mul(0x94D0_49BB_1331_11EB);
    z ^ (z >> 31)
}

pub fn hash_str(s: &str) -> u64 {
    let mut h: u64 = 0xcbf2_9ce4_8422_2325;
    for b in s.bytes() {
        h ^= b as u64;
        h = h.wrapping_mul(0x1000_0000_01b3);
    }
    h
}

pub fn mix(a: u64, b: u64) -> u64 {
    let mut x = a ^ b.rotate_left(29) ^ 0x5851_F42D_4C95_7F2D;
    let r = splitmix(&mut x);
    r ^ splitmix(&mut x)
}

impl Rng {
    pub fn new(seed: u64) -> Rng {
        let mut x = seed;
        Rng {
            s: [
                splitmix(&mut x),
                splitmix(&mut x),
                splitmix(&mut x),
                splitmix(&mut x),
            ],
        }
    }
    pub fn for_case(seed: u64, prop: &str, case: u64) -> Rng {
        Rng::new(mix(mix(seed, hash_str(prop)), case))
    }
    pub fn next_u64(&mut self) -> u64 {
        let r = self.s[1].wrapping_mul(5).rotate_left(7).wrapping_mul(9);
        let t = self.s[1] << 17;
        self.s[2] ^= self.s[0];
        self.s[3] ^= self.s[1];
        self.s[1] ^= self.s[2];
        self.s[0] ^= self.s[3];
        self.s[2] ^= t;
        self.s[3] = self.s[3].rotate_left(45);
        r
    }
    /// uniform in 0..n (n > 0)
    pub fn below(&mut self, n: usize) -> usize {
        debug_assert!(n > 0);
        (self.next_u64() % (n as u64)) as usize
    }
    /// uniform in lo..=hi
    pub fn range(&mut self, lo: i64, hi: i64) -> i64 {
        debug_assert!(lo <= hi);
        lo + (self.next_u64() % ((hi - lo + 1) as u64)) as i64
    }
    pub fn urange(&mut self, lo: usize, hi: usize) -> usize {
        lo + self.below(hi - lo + 1)
    }
    /// true with probability num/den
    pub fn chance(&mut self, num: u32, den: u32) -> bool {
        (self.next_u64() % den as u64) < num as u64
    }
    pub fn coin(&mut self) -> bool {
        self.next_u64() & 1 == 1
    }
    pub fn f64(&mut self) -> f64 {
        (self.next_u64() >> 11) as f64 / (1u64 << 53) as f64
    }
    pub fn pick<'a, T>(&mut self, xs: &'a [T]) -> &'a T {
        &xs[self.below(xs.len())]
    }
    pub fn shuffle<T>(&mut self, xs: &mut [T]) {
        for i in (1..xs.len()).rev() {
            let j = self.below(i + 1);
            xs.swap(i, j);
        }
    }
    pub fn perm(&mut self, n: usize) -> Vec<usize> {
        let mut p: Vec<usize> = (0..n).collect();
        self.shuffle(&mut p);
        p
    }
    /// weighted choice: returns index
    pub fn weighted(&mut self, ws: &[u32]) -> usize {
        let tot: u64 = ws.iter().map(|&w| w as u64).sum();
        let mut r = self.next_u64() % tot;
        for (i, &w) in ws.iter().enumerate() {
            if r < w as u64 {
                return i;
            }
            r -= w as u64;
        }
        ws.len() - 1
    }
}
