//! Encodings of one abstract graph in every petgraph graph type, with the node
//! correspondence abs index -> NodeId.  Several encodings deliberately leave vacant indices
//! below node_bound / edge_bound, permute insertion order, or use narrow index types.

use crate::abs::Abs;
use crate::rng::Rng;
use petgraph::adj::List;
use petgraph::csr::Csr;
use petgraph::graph::{Graph, IndexType, NodeIndex};
use petgraph::graphmap::GraphMap;
use petgraph::matrix_graph::MatrixGraph;
use petgraph::stable_graph::StableGraph;
use petgraph::visit::GraphBase;
use petgraph::EdgeType;

pub struct Enc<G: GraphBase> {
    pub g: G,
    /// abs index -> node id
    pub ids: Vec<G::NodeId>,
    pub holes: bool,
}

#[derive(Clone, Copy, Debug, PartialEq, Eq, PartialOrd, Ord)]
pub enum EncTag {
    /// Graph, direct insertion, narrowest index type that fits (u8)
    GraphU8,
    /// Graph<_, _, _, u16> built through a shuffled history with junk removed again
    GraphShuf,
    /// Graph<_, _, _, usize>, nodes inserted under a random permutation
    GraphUsize,
    /// StableGraph<u32> with node and edge vacancies (incl. index 0 and trailing)
    StableHoles,
    /// StableGraph<u8> with vacancies
    StableU8,
    /// GraphMap with sparse / negative i32 labels
    GMap,
    /// MatrixGraph (default u16) with removed ids
    Matrix,
    /// Csr<u32>, edges inserted in random order
    CsrT,
    /// adj::List<u32>
    ListT,
}

pub const ALL_TAGS: &[EncTag] = &[
    EncTag::GraphU8,
    EncTag::GraphShuf,
    EncTag::GraphUsize,
    EncTag::StableHoles,
    EncTag::StableU8,
    EncTag::GMap,
    EncTag::Matrix,
    EncTag::CsrT,
    EncTag::ListT,
];

impl EncTag {
    pub fn name(self) -> &'static str {
        match self {
            EncTag::GraphU8 => "Graph<u8>",
            EncTag::GraphShuf => "Graph<u16>/shuffled-history",
            EncTag::GraphUsize => "Graph<usize>/permuted",
            EncTag::StableHoles => "StableGraph<u32>/holes",
            EncTag::StableU8 => "StableGraph<u8>/holes",
            EncTag::GMap => "GraphMap<i32>",
            EncTag::Matrix => "MatrixGraph<u16>/removed-ids",
            EncTag::CsrT => "Csr<u32>",
            EncTag::ListT => "adj::List<u32>",
        }
    }
    /// can this type represent `abs` exactly?
    pub fn feasible(self, abs: &Abs) -> bool {
        match self {
            EncTag::GraphU8 => abs.n < 200 && abs.m() < 200,
            EncTag::StableU8 => abs.n < 120 && abs.m() < 120,
            EncTag::GraphShuf | EncTag::GraphUsize | EncTag::StableHoles => true,
            EncTag::GMap | EncTag::Matrix | EncTag::CsrT => abs.is_simple(),
            EncTag::ListT => abs.directed,
        }
    }
    pub fn sparse_indices(self) -> bool {
        matches!(self, EncTag::StableHoles | EncTag::StableU8 | EncTag::Matrix)
    }
}

pub fn graph_direct<Ty: EdgeType, Ix: IndexType, W>(
    abs: &Abs,
    _rng: &mut Rng,
    fw: impl Fn(i64) -> W,
) -> Enc<Graph<u32, W, Ty, Ix>> {
    let mut g = Graph::<u32, W, Ty, Ix>::with_capacity(0, 0);
    let ids: Vec<_> = (0..abs.n).map(|i| g.add_node(i as u32)).collect();
    for &(u, v, w) in &abs.edges {
        g.add_edge(ids[u], ids[v], fw(w));
    }
    Enc { g, ids, holes: false }
}

pub fn graph_permuted<Ty: EdgeType, Ix: IndexType, W>(
    abs: &Abs,
    rng: &mut Rng,
    fw: impl Fn(i64) -> W,
) -> Enc<Graph<u32, W, Ty, Ix>> {
    let mut g = Graph::<u32, W, Ty, Ix>::with_capacity(0, 0);
    let order = rng.perm(abs.n);
    let mut ids = vec![NodeIndex::<Ix>::end(); abs.n];
    for &a in &order {
        ids[a] = g.add_node(a as u32);
    }
    let mut es: Vec<usize> = (0..abs.m()).collect();
    rng.shuffle(&mut es);
    for &i in &es {
        let (u, v, w) = abs.edges[i];
        g.add_edge(ids[u], ids[v], fw(w));
    }
    Enc { g, ids, holes: false }
}

const JUNK: u32 = 0xFFFF_0000;

/// Graph built through a history: junk nodes/edges interleaved, then removed (swap-remove
/// renumbering scrambles indices); correspondence recovered from the node weights.
pub fn graph_shuffled<Ty: EdgeType, Ix: IndexType, W: Clone>(
    abs: &Abs,
    rng: &mut Rng,
    fw: impl Fn(i64) -> W,
) -> Enc<Graph<u32, W, Ty, Ix>> {
    let mut g = Graph::<u32, W, Ty, Ix>::with_capacity(0, 0);
    let order = rng.perm(abs.n);
    let mut cur = vec![NodeIndex::<Ix>::end(); abs.n];
    let mut njunk = 0;
    for &a in &order {
        if rng.chance(1, 3) && njunk < 6 {
            g.add_node(JUNK + njunk);
            njunk += 1;
        }
        cur[a] = g.add_node(a as u32);
    }
    if njunk == 0 {
        g.add_node(JUNK);
    }
    let mut es: Vec<usize> = (0..abs.m()).collect();
    rng.shuffle(&mut es);
    let nn = g.node_count();
    for &i in &es {
        let (u, v, w) = abs.edges[i];
        g.add_edge(cur[u], cur[v], fw(w));
        if rng.chance(1, 3) {
            // junk edge touching a junk node (so it disappears with it) or removed explicitly
            let a = NodeIndex::new(rng.below(nn));
            let b = NodeIndex::new(rng.below(nn));
            let e = g.add_edge(a, b, fw(w));
            if g[a] < JUNK && g[b] < JUNK {
                g.remove_edge(e);
            }
        }
    }
    // remove junk nodes (each removal renumbers the last node)
    loop {
        let j = g.node_indices().find(|&i| g[i] >= JUNK);
        match j {
            Some(j) => {
                g.remove_node(j);
            }
            None => break,
        }
    }
    // a third of the states are reached through clone_from into an unrelated, differently sized graph
    if rng.chance(1, 3) {
        let mut other = Graph::<u32, W, Ty, Ix>::with_capacity(0, 0);
        let k = 1 + rng.below(2 * abs.n.min(12) + 3);
        let ns: Vec<_> = (0..k).map(|_| other.add_node(JUNK)).collect();
        for _ in 0..rng.below(2 * abs.m().min(12) + 3) {
            other.add_edge(ns[rng.below(k)], ns[rng.below(k)], fw(4));
        }
        other.clone_from(&g);
        g = other;
    }
    let mut ids = vec![NodeIndex::<Ix>::end(); abs.n];
    for i in g.node_indices() {
        ids[g[i] as usize] = i;
    }
    Enc { g, ids, holes: false }
}

pub fn stable_holes<Ty: EdgeType, Ix: IndexType, W: Clone>(
    abs: &Abs,
    rng: &mut Rng,
    fw: impl Fn(i64) -> W,
) -> Enc<StableGraph<u32, W, Ty, Ix>> {
    let mut g = StableGraph::<u32, W, Ty, Ix>::with_capacity(0, 0);
    let order = rng.perm(abs.n);
    let mut ids = vec![NodeIndex::<Ix>::end(); abs.n];
    let mut junk_nodes = vec![];
    // a hole at index 0 most of the time
    if rng.chance(3, 4) {
        junk_nodes.push(g.add_node(JUNK));
    }
    for &a in &order {
        if rng.chance(1, 3) && junk_nodes.len() < 5 {
            junk_nodes.push(g.add_node(JUNK));
        }
        ids[a] = g.add_node(a as u32);
    }
    // trailing hole(s)
    if rng.chance(1, 2) || junk_nodes.is_empty() {
        junk_nodes.push(g.add_node(JUNK));
    }
    let mut es: Vec<usize> = (0..abs.m()).collect();
    rng.shuffle(&mut es);
    let mut junk_edges = vec![];
    if abs.n > 0 && rng.chance(3, 4) {
        junk_edges.push(g.add_edge(ids[0], ids[abs.n - 1], fw(0)));
    }
    for &i in &es {
        let (u, v, w) = abs.edges[i];
        g.add_edge(ids[u], ids[v], fw(w));
        if rng.chance(1, 3) && junk_edges.len() < 5 && abs.n > 0 {
            let a = ids[rng.below(abs.n)];
            let b = ids[rng.below(abs.n)];
            junk_edges.push(g.add_edge(a, b, fw(w)));
        }
    }
    if abs.n > 0 && (rng.chance(1, 2) || junk_edges.is_empty()) {
        let a = ids[rng.below(abs.n)];
        junk_edges.push(g.add_edge(a, a, fw(1)));
    }
    // the nodes to be removed carry edges of their own (self-loops, to / from live nodes, to each other), which
    // remove_node has to unlink from the live nodes' lists
    for k in 0..junk_nodes.len() {
        let j = junk_nodes[k];
        if rng.coin() {
            g.add_edge(j, j, fw(1));
        }
        if abs.n > 0 && rng.coin() {
            let r = ids[rng.below(abs.n)];
            if rng.coin() {
                g.add_edge(j, r, fw(2));
            } else {
                g.add_edge(r, j, fw(2));
            }
        }
        if k > 0 && rng.chance(1, 3) {
            g.add_edge(junk_nodes[k - 1], j, fw(3));
        }
    }
    rng.shuffle(&mut junk_edges);
    for e in junk_edges {
        g.remove_edge(e);
    }
    rng.shuffle(&mut junk_nodes);
    for j in junk_nodes {
        g.remove_node(j);
    }
    // a third of the states are reached through clone_from into an unrelated, differently sized graph with vacancies
    if rng.chance(1, 3) {
        let mut other = StableGraph::<u32, W, Ty, Ix>::with_capacity(0, 0);
        let k = 1 + rng.below(2 * abs.n.min(12) + 3);
        let ns: Vec<_> = (0..k).map(|_| other.add_node(JUNK)).collect();
        for _ in 0..rng.below(2 * abs.m().min(12) + 3) {
            other.add_edge(ns[rng.below(k)], ns[rng.below(k)], fw(4));
        }
        for _ in 0..rng.below(3) {
            other.remove_node(ns[rng.below(k)]);
        }
        other.clone_from(&g);
        g = other;
    }
    Enc { g, ids, holes: true }
}

pub fn label_of(abs_i: usize, salt: i32) -> i32 {
    // injective, sparse, partly negative
    (abs_i as i32) * 7 - 20 + salt
}

pub fn graphmap<Ty: EdgeType, W>(
    abs: &Abs,
    rng: &mut Rng,
    fw: impl Fn(i64) -> W,
) -> Enc<GraphMap<i32, W, Ty>> {
    let mut g = GraphMap::<i32, W, Ty>::with_capacity(0, 0);
    let salt = rng.range(-3, 3) as i32;
    let order = rng.perm(abs.n);
    let ids: Vec<i32> = (0..abs.n).map(|i| label_of(i, salt)).collect();
    let junk = 1_000_003;
    let use_junk = rng.coin();
    if use_junk {
        g.add_node(junk);
    }
    for &a in &order {
        g.add_node(ids[a]);
    }
    let mut es: Vec<usize> = (0..abs.m()).collect();
    rng.shuffle(&mut es);
    for &i in &es {
        let (u, v, w) = abs.edges[i];
        g.add_edge(ids[u], ids[v], fw(w));
        if use_junk && rng.chance(1, 4) {
            g.add_edge(junk, ids[u], fw(w));
        }
    }
    if use_junk {
        g.remove_node(junk);
    }
    Enc { g, ids, holes: false }
}

pub fn matrix<Ty: EdgeType, W>(
    abs: &Abs,
    rng: &mut Rng,
    fw: impl Fn(i64) -> W,
) -> Enc<MatrixGraph<u32, W, std::collections::hash_map::RandomState, Ty, Option<W>, u16>> {
    let mut g = MatrixGraph::<u32, W, std::collections::hash_map::RandomState, Ty, Option<W>, u16>::with_capacity(
        rng.below(6),
    );
    let order = rng.perm(abs.n);
    let mut ids = vec![NodeIndex::<u16>::end(); abs.n];
    let mut junk = vec![];
    if rng.chance(3, 4) {
        junk.push(g.add_node(JUNK));
    }
    for &a in &order {
        if rng.chance(1, 3) && junk.len() < 4 {
            junk.push(g.add_node(JUNK));
        }
        ids[a] = g.add_node(a as u32);
    }
    if rng.coin() || junk.is_empty() {
        junk.push(g.add_node(JUNK));
    }
    let mut es: Vec<usize> = (0..abs.m()).collect();
    rng.shuffle(&mut es);
    for &i in &es {
        let (u, v, w) = abs.edges[i];
        g.add_edge(ids[u], ids[v], fw(w));
    }
    // the nodes to be removed carry edges of their own - a self-loop, edges to and from live nodes and to each other -
    // which must all disappear with them
    for (k, &j) in junk.iter().enumerate() {
        if rng.coin() {
            g.add_edge(j, j, fw(1));
        }
        if abs.n > 0 && rng.coin() {
            let r = ids[rng.below(abs.n)];
            if rng.coin() || !abs.directed {
                g.add_edge(j, r, fw(2));
            } else {
                g.add_edge(r, j, fw(2));
            }
        }
        if k > 0 && rng.chance(1, 3) {
            g.add_edge(junk[k - 1], j, fw(3));
        }
    }
    rng.shuffle(&mut junk);
    for j in junk {
        g.remove_node(j);
    }
    Enc { g, ids, holes: true }
}

pub fn csr<Ty: EdgeType, W: Clone>(
    abs: &Abs,
    rng: &mut Rng,
    fw: impl Fn(i64) -> W,
) -> Enc<Csr<u32, W, Ty, u32>> {
    let mut g = Csr::<u32, W, Ty, u32>::new();
    let ids: Vec<u32> = (0..abs.n).map(|i| g.add_node(i as u32)).collect();
    let mut es: Vec<usize> = (0..abs.m()).collect();
    rng.shuffle(&mut es);
    for &i in &es {
        let (u, v, w) = abs.edges[i];
        g.add_edge(ids[u], ids[v], fw(w));
    }
    Enc { g, ids, holes: false }
}

pub fn list<W>(abs: &Abs, rng: &mut Rng, fw: impl Fn(i64) -> W) -> Enc<List<W, u32>> {
    let mut g = List::<W, u32>::new();
    let ids: Vec<u32> = (0..abs.n).map(|_| g.add_node()).collect();
    let mut es: Vec<usize> = (0..abs.m()).collect();
    if rng.coin() {
        rng.shuffle(&mut es);
    }
    for &i in &es {
        let (u, v, w) = abs.edges[i];
        g.add_edge(ids[u], ids[v], fw(w));
    }
    Enc { g, ids, holes: false }
}

/// Build the encoding named by `$tag` for `$abs` with edge type `$Ty`, bind `$g` (a `&Graph`)
/// and `$ids` (`&[NodeId]`), and evaluate `$body`.
#[macro_export]
macro_rules! enc_arm {
    (GraphU8, $Ty:ty, $abs:expr, $rng:expr, $W:ty, $fw:expr, |$g:ident, $ids:ident| $body:expr) => {{
        let e = $crate::enc::graph_direct::<$Ty, u8, $W>($abs, $rng, $fw);
        let $g = &e.g;
        let $ids = &e.ids[..];
        $body
    }};
    (GraphShuf, $Ty:ty, $abs:expr, $rng:expr, $W:ty, $fw:expr, |$g:ident, $ids:ident| $body:expr) => {{
        let e = $crate::enc::graph_shuffled::<$Ty, u16, $W>($abs, $rng, $fw);
        let $g = &e.g;
        let $ids = &e.ids[..];
        $body
    }};
    (GraphUsize, $Ty:ty, $abs:expr, $rng:expr, $W:ty, $fw:expr, |$g:ident, $ids:ident| $body:expr) => {{
        let e = $crate::enc::graph_permuted::<$Ty, usize, $W>($abs, $rng, $fw);
        let $g = &e.g;
        let $ids = &e.ids[..];
        $body
    }};
    (StableHoles, $Ty:ty, $abs:expr, $rng:expr, $W:ty, $fw:expr, |$g:ident, $ids:ident| $body:expr) => {{
        let e = $crate::enc::stable_holes::<$Ty, u32, $W>($abs, $rng, $fw);
        let $g = &e.g;
        let $ids = &e.ids[..];
        $body
    }};
    (StableU8, $Ty:ty, $abs:expr, $rng:expr, $W:ty, $fw:expr, |$g:ident, $ids:ident| $body:expr) => {{
        let e = $crate::enc::stable_holes::<$Ty, u8, $W>($abs, $rng, $fw);
        let $g = &e.g;
        let $ids = &e.ids[..];
        $body
    }};
    (GMap, $Ty:ty, $abs:expr, $rng:expr, $W:ty, $fw:expr, |$g:ident, $ids:ident| $body:expr) => {{
        let e = $crate::enc::graphmap::<$Ty, $W>($abs, $rng, $fw);
        let $g = &e.g;
        let $ids = &e.ids[..];
        $body
    }};
    (Matrix, $Ty:ty, $abs:expr, $rng:expr, $W:ty, $fw:expr, |$g:ident, $ids:ident| $body:expr) => {{
        let e = $crate::enc::matrix::<$Ty, $W>($abs, $rng, $fw);
        let $g = &e.g;
        let $ids = &e.ids[..];
        $body
    }};
    (CsrT, $Ty:ty, $abs:expr, $rng:expr, $W:ty, $fw:expr, |$g:ident, $ids:ident| $body:expr) => {{
        let e = $crate::enc::csr::<$Ty, $W>($abs, $rng, $fw);
        let $g = &e.g;
        let $ids = &e.ids[..];
        $body
    }};
    (ListT, $Ty:ty, $abs:expr, $rng:expr, $W:ty, $fw:expr, |$g:ident, $ids:ident| $body:expr) => {{
        let e = $crate::enc::list::<$W>($abs, $rng, $fw);
        let $g = &e.g;
        let $ids = &e.ids[..];
        $body
    }};
}

/// Run `$body` on one (mode `one`) or every (mode `all`) feasible encoding among the listed tags.
/// `$body` is an expression of type `R` evaluated with `$g`, `$ids`, `$tag` bound.
#[macro_export]
macro_rules! with_enc {
    ($mode:ident, $abs:expr, $rng:expr, $W:ty, $fw:expr,
     directed: [$($d:ident),*], undirected: [$($u:ident),*],
     |$g:ident, $ids:ident, $tag:ident| $body:expr) => {{
        use $crate::enc::EncTag;
        let __abs: &$crate::abs::Abs = $abs;
        let __listed: &[EncTag] = if __abs.directed { &[$(EncTag::$d),*] } else { &[$(EncTag::$u),*] };
        let mut __feas: Vec<EncTag> = __listed.iter().copied().filter(|t| t.feasible(__abs)).collect();
        if stringify!($mode) == "one" && !__feas.is_empty() {
            let k = $rng.below(__feas.len());
            __feas = vec![__feas[k]];
        }
        for $tag in __feas {
            if __abs.directed {
                match $tag {
                    $(EncTag::$d => { $crate::enc_arm!($d, petgraph::Directed, __abs, $rng, $W, $fw, |$g, $ids| $body) })*
                    #[allow(unreachable_patterns)]
                    _ => unreachable!(),
                }
            } else {
                match $tag {
                    $(EncTag::$u => { $crate::enc_arm!($u, petgraph::Undirected, __abs, $rng, $W, $fw, |$g, $ids| $body) })*
                    #[allow(unreachable_patterns)]
                    _ => unreachable!(),
                }
            }
        }
    }};
}
