//! C01 - `Graph` under operation histories against the compact multigraph model.

use crate::cx::{catch, Cx, R};
use crate::dsmodel::{Model, ME};
use crate::rng::Rng;
use petgraph::data::{Build, Create, DataMap, Element, FromElements};
use petgraph::graph::{EdgeIndex, Graph, GraphError, IndexType, NodeIndex};
use petgraph::stable_graph::StableGraph;
use petgraph::visit::{EdgeRef, IntoEdgeReferences};
use petgraph::{Directed, EdgeType, Undirected};

gen_sweep!(sweep_graph, Graph, "Graph", graph_only: yes);

pub trait Flip: EdgeType {
    type Other: EdgeType + Flip<Other = Self>;
}
impl Flip for Directed {
    type Other = Undirected;
}
impl Flip for Undirected {
    type Other = Directed;
}

fn imax<Ix: IndexType>() -> usize {
    <Ix as IndexType>::max().index()
}

/// pick a node argument: mostly live, sometimes absent
fn pick_node<Ix: IndexType>(rng: &mut Rng, n: usize, absent_pct: u32) -> usize {
    if n == 0 || rng.chance(absent_pct, 100) {
        let c = [n, n + 1, imax::<Ix>(), n + 5][rng.below(4)];
        c.min(imax::<Ix>())
    } else {
        rng.below(n)
    }
}

/// After an operation whose edge numbering is left to the implementation: check the graph holds
/// exactly the expected edges (identified by their unique weights, endpoints as expected) on the
/// compact range 0..m, then adopt its numbering.
fn adopt_edges<Ty: EdgeType, Ix: IndexType>(cx: &mut Cx, g: &Graph<u32, u32, Ty, Ix>, m: &mut Model, expected: Vec<ME>, what: &str) -> R {
    let mut by_w: std::collections::BTreeMap<u32, ME> = expected.into_iter().map(|e| (e.w, e)).collect();
    let mut new_edges = vec![];
    let total = by_w.len();
    cx.ensure(g.edge_count() == total, &format!("{}:edge-count-after", what), || format!("{} edges after {}, expected {}", g.edge_count(), what, total))?;
    for e in g.edge_references() {
        let w = *e.weight();
        match by_w.remove(&w) {
            Some(x) => {
                cx.ensure(x.src == e.source().index() && x.dst == e.target().index(), &format!("{}:edge-endpoints-after", what), || {
                    format!("after {}: edge with weight {} connects {}->{}, expected {}->{}", what, w, e.source().index(), e.target().index(), x.src, x.dst)
                })?;
                cx.ensure(e.id().index() == new_edges.len(), &format!("{}:edge-indices-not-compact", what), || "edge ids are not 0..m".into())?;
                new_edges.push(Some(x));
            }
            None => {
                cx.ensure(false, &format!("{}:unexpected-edge-after", what), || format!("after {}: an edge with weight {} should not exist (removed or duplicated)", what, w))?;
            }
        }
    }
    cx.ensure(by_w.is_empty(), &format!("{}:edge-lost", what), || format!("after {}: edges lost: {:?}", what, by_w.keys().collect::<Vec<_>>()))?;
    m.edges = new_edges;
    Ok(())
}

/// same for nodes (retain_nodes): returns old->new index map
fn adopt_nodes<Ty: EdgeType, Ix: IndexType>(cx: &mut Cx, g: &Graph<u32, u32, Ty, Ix>, m: &Model, keep: &dyn Fn(u32) -> bool, what: &str) -> R<Vec<Option<usize>>> {
    let by_w = m.node_by_w();
    let mut map = vec![None; m.nodes.len()];
    let want = by_w.keys().filter(|&&w| keep(w)).count();
    cx.ensure(g.node_count() == want, &format!("{}:node-count-after", what), || format!("{} nodes after {}, expected {}", g.node_count(), what, want))?;
    for i in g.node_indices() {
        let w = g[i];
        match by_w.get(&w) {
            Some(&old) if keep(w) && map[old].is_none() => map[old] = Some(i.index()),
            _ => {
                cx.ensure(false, &format!("{}:unexpected-node-after", what), || format!("after {}: node with weight {} should not exist / appears twice", what, w))?;
            }
        }
    }
    Ok(map)
}

struct St<Ty: EdgeType, Ix: IndexType> {
    g: Graph<u32, u32, Ty, Ix>,
    m: Model,
}

fn full_sweep<Ty: EdgeType, Ix: IndexType>(cx: &mut Cx, st: &St<Ty, Ix>, salt: usize) -> R {
    sweep_graph(cx, &st.g, &st.m, true, salt)
}

fn history<Ty: EdgeType + Flip, Ix: IndexType>(cx: &mut Cx, rng: &mut Rng, ixname: &str) -> R {
    let directed = Ty::is_directed();
    cx.config = format!("Graph<{},{}>", if directed { "Directed" } else { "Undirected" }, ixname);
    let small = cx.small;
    let cap_mode = imax::<Ix>() == 255 && !small && rng.chance(1, 6);
    let mut st = St::<Ty, Ix> { g: Graph::with_capacity(rng.below(4), rng.below(4)), m: Model::new(directed) };
    // ---- initial construction
    match rng.below(5) {
        0 => {
            // from_edges + relabel the default-weighted nodes
            let n0 = rng.urange(1, 6);
            let k = rng.below(8);
            let mut es = vec![];
            for _ in 0..k {
                let w = st.m.fresh_w();
                es.push((rng.below(n0) as u32, rng.below(n0) as u32, w));
            }
            cx.log(|| format!("from_edges({:?})", es));
            st.g = Graph::from_edges(es.iter().map(|&(a, b, w)| (NodeIndex::<Ix>::new(a as usize), NodeIndex::<Ix>::new(b as usize), w)));
            let nn = es.iter().map(|e| e.0.max(e.1) as usize + 1).max().unwrap_or(0);
            for i in 0..nn {
                let w = st.m.fresh_w();
                st.m.nodes.push(Some(w));
                match st.g.node_weight_mut(NodeIndex::new(i)) {
                    Some(x) => {
                        cx.ensure(*x == 0, "Graph:from_edges-node-not-default", || format!("node {} created by from_edges has weight {}", i, *x))?;
                        *x = w;
                    }
                    None => cx.ensure(false, "Graph:from_edges-node-missing", || format!("node {} missing after from_edges", i))?,
                }
            }
            for &(a, b, w) in &es {
                st.m.push_edge(a as usize, b as usize, w);
            }
        }
        1 => {
            // FromElements
            let n0 = rng.urange(0, 5);
            let mut els = vec![];
            for _ in 0..n0 {
                let w = st.m.fresh_w();
                st.m.nodes.push(Some(w));
                els.push(Element::Node { weight: w });
            }
            if n0 > 0 {
                for _ in 0..rng.below(6) {
                    let (a, b) = (rng.below(n0), rng.below(n0));
                    let w = st.m.fresh_w();
                    st.m.push_edge(a, b, w);
                    els.push(Element::Edge { source: a, target: b, weight: w });
                }
            }
            cx.log(|| format!("from_elements({} nodes, {} edges)", n0, els.len() - n0));
            st.g = Graph::from_elements(els);
        }
        2 => {
            st.g = <Graph<u32, u32, Ty, Ix> as Create>::with_capacity(2, 2);
        }
        _ => {}
    }
    full_sweep(cx, &st, 0)?;
    if cap_mode {
        // fill the u8 index space
        cx.log(|| "capacity mode: filling to 255 nodes / up to 255 edges".to_string());
        while st.m.nodes.len() < 255 {
            let w = st.m.fresh_w();
            let i = st.g.add_node(w);
            cx.ensure(i.index() == st.m.nodes.len(), "Graph:add_node-index", || format!("add_node = {}", i.index()))?;
            st.m.nodes.push(Some(w));
        }
        let target_edges = if rng.coin() { 255 } else { 250 + rng.below(5) };
        while st.m.edges.len() < target_edges {
            let (a, b) = (rng.below(255), rng.below(255));
            let w = st.m.fresh_w();
            let e = st.g.add_edge(NodeIndex::new(a), NodeIndex::new(b), w);
            cx.ensure(e.index() == st.m.edges.len(), "Graph:add_edge-index", || format!("add_edge = {}", e.index()))?;
            st.m.push_edge(a, b, w);
        }
        cx.count("Graph:u8-capacity-histories");
        full_sweep(cx, &st, 3)?;
    }
    let nops = if small { rng.urange(8, 40) } else if cap_mode { rng.urange(20, 80) } else { rng.urange(30, 400) };
    let maxn = if cap_mode { 255 } else if rng.chance(1, 8) { 30 } else { 12 };
    let absent_pct = [5u32, 15, 30][rng.below(3)];
    let mut removals = 0;
    let mut kinds = crate::cx::H::new();
    let mut snap: Option<Graph<u32, u32, Ty, Ix>> = None;
    for step in 0..nops {
        let n = st.m.nodes.len();
        let me = st.m.edges.len();
        cx.ops += 1;
        let op = rng.weighted(&[
            12, // 0 add_node
            30, // 1 add_edge
            8,  // 2 update_edge
            10, // 3 remove_edge
            7,  // 4 remove_node
            4,  // 5 weight mutation
            2,  // 6 reverse
            1,  // 7 clear_edges / clear
            3,  // 8 retain_*
            3,  // 9 map / filter_map
            3,  // 10 extend_with_edges
            2,  // 11 clone / clone_from
            2,  // 12 into_edge_type round trip
            2,  // 13 conversions
            2,  // 14 index_twice_mut / Frozen
            1,  // 15 capacity ops
        ]);
        kinds.add(op as u64);
        let mut mutated = true;
        match op {
            0 => {
                if n >= maxn && !cap_mode {
                    continue;
                }
                let w = st.m.fresh_w();
                let at_limit = n >= imax::<Ix>() && imax::<Ix>() != usize::MAX;
                match rng.below(3) {
                    0 => {
                        cx.log(|| format!("#{} try_add_node(w{})", step, w));
                        let r = st.g.try_add_node(w);
                        if at_limit {
                            cx.ensure(r == Err(GraphError::NodeIxLimit), "Graph:try_add_node-at-limit", || format!("try_add_node at {} nodes = {:?}", n, r))?;
                        } else {
                            cx.ensure(r == Ok(NodeIndex::new(n)), "Graph:try_add_node-index", || format!("try_add_node = {:?}, expected index {}", r, n))?;
                            st.m.nodes.push(Some(w));
                        }
                    }
                    1 => {
                        cx.log(|| format!("#{} add_node(w{})", step, w));
                        let r = catch(|| st.g.add_node(w));
                        match r {
                            Ok(i) => {
                                cx.ensure(!at_limit && i.index() == n, "Graph:add_node-index", || format!("add_node = {} with {} nodes (limit {})", i.index(), n, imax::<Ix>()))?;
                                st.m.nodes.push(Some(w));
                            }
                            Err(p) => cx.ensure(at_limit, "Graph:add_node-unexpected-panic", || format!("add_node panicked: {}", p.short()))?,
                        }
                    }
                    _ => {
                        if at_limit {
                            continue;
                        }
                        cx.log(|| format!("#{} Build::add_node(w{})", step, w));
                        let i = Build::add_node(&mut st.g, w);
                        cx.ensure(i.index() == n, "Graph:Build::add_node-index", || format!("= {}", i.index()))?;
                        st.m.nodes.push(Some(w));
                    }
                }
            }
            1 => {
                let a = pick_node::<Ix>(rng, n, absent_pct);
                let b = if rng.chance(1, 8) { a } else { pick_node::<Ix>(rng, n, absent_pct / 2) };
                let w = st.m.fresh_w();
                let nodes_ok = a < n && b < n;
                let at_limit = me >= imax::<Ix>() && imax::<Ix>() != usize::MAX;
                let (ai, bi) = (NodeIndex::<Ix>::new(a), NodeIndex::<Ix>::new(b));
                match rng.below(3) {
                    0 => {
                        cx.log(|| format!("#{} try_add_edge({}, {}, w{})", step, a, b, w));
                        let r = st.g.try_add_edge(ai, bi, w);
                        let want = if at_limit { Err(GraphError::EdgeIxLimit) } else if !nodes_ok { Err(GraphError::NodeOutBounds) } else { Ok(EdgeIndex::new(me)) };
                        cx.ensure(r == want, "Graph:try_add_edge-result", || format!("try_add_edge({},{}) = {:?}, model {:?}", a, b, r, want))?;
                        if want.is_ok() {
                            st.m.push_edge(a, b, w);
                        }
                    }
                    1 => {
                        cx.log(|| format!("#{} add_edge({}, {}, w{})", step, a, b, w));
                        let r = catch(|| st.g.add_edge(ai, bi, w));
                        let ok = !at_limit && nodes_ok;
                        match r {
                            Ok(e) => {
                                cx.ensure(ok && e.index() == me, "Graph:add_edge-index", || format!("add_edge({},{}) = {} (nodes {}, edges {})", a, b, e.index(), n, me))?;
                                st.m.push_edge(a, b, w);
                            }
                            Err(p) => cx.ensure(!ok, "Graph:add_edge-unexpected-panic", || format!("add_edge({},{}) panicked: {}", a, b, p.short()))?,
                        }
                    }
                    _ => {
                        if at_limit || !nodes_ok {
                            continue;
                        }
                        cx.log(|| format!("#{} Build::add_edge({}, {}, w{})", step, a, b, w));
                        let r = Build::add_edge(&mut st.g, ai, bi, w);
                        cx.ensure(r == Some(EdgeIndex::new(me)), "Graph:Build::add_edge", || format!("= {:?}", r))?;
                        st.m.push_edge(a, b, w);
                    }
                }
            }
            2 => {
                let a = pick_node::<Ix>(rng, n, absent_pct);
                // bias towards existing pairs
                let b = if a < n && rng.chance(2, 3) && !st.m.incident(a).is_empty() {
                    let inc = st.m.incident(a);
                    st.m.other(inc[rng.below(inc.len())], a)
                } else {
                    pick_node::<Ix>(rng, n, absent_pct / 2)
                };
                let w = st.m.fresh_w();
                let nodes_ok = a < n && b < n;
                let conn: Vec<usize> = if nodes_ok { st.m.live_edges().into_iter().filter(|&e| st.m.connects(e, a, b)).collect() } else { vec![] };
                let at_limit = me >= imax::<Ix>() && imax::<Ix>() != usize::MAX;
                let (ai, bi) = (NodeIndex::<Ix>::new(a), NodeIndex::<Ix>::new(b));
                let use_try = rng.coin();
                cx.log(|| format!("#{} {}({}, {}, w{})", step, if use_try { "try_update_edge" } else { "update_edge" }, a, b, w));
                let r: Result<Result<EdgeIndex<Ix>, GraphError>, _> = if use_try { Ok(st.g.try_update_edge(ai, bi, w)) } else { catch(|| Ok(st.g.update_edge(ai, bi, w))) };
                let expect_ok = !conn.is_empty() || (nodes_ok && !at_limit);
                match r {
                    Ok(Ok(e)) => {
                        cx.ensure(expect_ok, "Graph:update_edge-should-fail", || format!("update_edge({},{}) = {:?}", a, b, e))?;
                        if conn.is_empty() {
                            cx.ensure(e.index() == me, "Graph:update_edge-new-index", || format!("new edge index {} expected {}", e.index(), me))?;
                            st.m.push_edge(a, b, w);
                        } else {
                            cx.ensure(conn.contains(&e.index()), "Graph:update_edge-wrong-edge", || format!("update_edge({},{}) updated edge {}, connecting edges {:?}", a, b, e.index(), conn))?;
                            st.m.edges[e.index()].as_mut().unwrap().w = w;
                        }
                    }
                    Ok(Err(err)) => {
                        cx.ensure(!expect_ok, "Graph:try_update_edge-unexpected-error", || format!("try_update_edge({},{}) = {:?}", a, b, err))?;
                        let want = if !nodes_ok { GraphError::NodeOutBounds } else { GraphError::EdgeIxLimit };
                        // at the edge limit the limit is checked first
                        let want2 = if at_limit { GraphError::EdgeIxLimit } else { want.clone() };
                        cx.ensure(err == want2, "Graph:try_update_edge-error-kind", || format!("{:?}, expected {:?}", err, want2))?;
                    }
                    Err(p) => cx.ensure(!expect_ok, "Graph:update_edge-unexpected-panic", || format!("update_edge({},{}) panicked: {}", a, b, p.short()))?,
                }
            }
            3 => {
                let e = if me == 0 || rng.chance(absent_pct, 100) { [me, me + 1, imax::<Ix>()][rng.below(3)].min(imax::<Ix>()) } else { rng.below(me) };
                cx.log(|| format!("#{} remove_edge({})", step, e));
                let r = st.g.remove_edge(EdgeIndex::new(e));
                if e < me {
                    cx.ensure(r == Some(st.m.e(e).w), "Graph:remove_edge-result", || format!("remove_edge({}) = {:?}, model {:?}", e, r, st.m.e(e).w))?;
                    st.m.edges.swap_remove(e);
                    removals += 1;
                } else {
                    cx.ensure(r.is_none(), "Graph:remove_edge-absent", || format!("remove_edge({}) with {} edges = {:?}", e, me, r))?;
                }
            }
            4 => {
                let a = pick_node::<Ix>(rng, n, absent_pct);
                cx.log(|| format!("#{} remove_node({})", step, a));
                let r = st.g.remove_node(NodeIndex::new(a));
                if a < n {
                    cx.ensure(r == st.m.nodes[a], "Graph:remove_node-result", || format!("remove_node({}) = {:?}, model {:?}", a, r, st.m.nodes[a]))?;
                    // expected edges: non-incident ones, with the last node renamed to a
                    let last = n - 1;
                    let expected: Vec<ME> = st.m.edges.iter().flatten().filter(|e| e.src != a && e.dst != a).map(|e| {
                        let mut x = e.clone();
                        if x.src == last { x.src = a; }
                        if x.dst == last { x.dst = a; }
                        x
                    }).collect();
                    st.m.nodes.swap_remove(a);
                    adopt_edges(cx, &st.g, &mut st.m, expected, "remove_node")?;
                    removals += 1;
                } else {
                    cx.ensure(r.is_none(), "Graph:remove_node-absent", || format!("remove_node({}) with {} nodes = {:?}", a, n, r))?;
                }
            }
            5 => {
                let w = st.m.fresh_w();
                if rng.coin() {
                    let a = pick_node::<Ix>(rng, n, absent_pct);
                    cx.log(|| format!("#{} node weight of {} := w{}", step, a, w));
                    let ai = NodeIndex::<Ix>::new(a);
                    match rng.below(3) {
                        0 => match st.g.node_weight_mut(ai) {
                            Some(x) => {
                                cx.ensure(a < n, "Graph:node_weight_mut-absent-some", || format!("node_weight_mut({}) is Some with {} nodes", a, n))?;
                                *x = w;
                                st.m.nodes[a] = Some(w);
                            }
                            None => cx.ensure(a >= n, "Graph:node_weight_mut-live-none", || format!("node_weight_mut({}) = None", a))?,
                        },
                        1 => {
                            if a < n {
                                st.g[ai] = w;
                                st.m.nodes[a] = Some(w);
                            }
                        }
                        _ => {
                            if a < n {
                                if let Some(x) = st.g.node_weights_mut().nth(a) {
                                    *x = w;
                                    st.m.nodes[a] = Some(w);
                                } else {
                                    cx.ensure(false, "Graph:node_weights_mut-short", || format!("node_weights_mut has no element {}", a))?;
                                }
                            }
                        }
                    }
                } else if me > 0 {
                    let e = rng.below(me);
                    cx.log(|| format!("#{} edge weight of {} := w{}", step, e, w));
                    match rng.below(3) {
                        0 => *st.g.edge_weight_mut(EdgeIndex::new(e)).unwrap() = w,
                        1 => st.g[EdgeIndex::<Ix>::new(e)] = w,
                        _ => *st.g.edge_weights_mut().nth(e).unwrap() = w,
                    }
                    st.m.edges[e].as_mut().unwrap().w = w;
                    cx.ensure(st.g.edge_weight_mut(EdgeIndex::new(me)).is_none(), "Graph:edge_weight_mut-absent-some", || "edge_weight_mut(bound) is Some".into())?;
                }
            }
            6 => {
                cx.log(|| format!("#{} reverse()", step));
                st.g.reverse();
                st.m.reverse();
            }
            7 => {
                if rng.chance(1, 4) {
                    cx.log(|| format!("#{} clear()", step));
                    st.g.clear();
                    st.m.nodes.clear();
                    st.m.edges.clear();
                } else {
                    cx.log(|| format!("#{} clear_edges()", step));
                    st.g.clear_edges();
                    st.m.edges.clear();
                }
            }
            8 => {
                // predicate on the unique weight only, so the outcome does not depend on visiting order
                let modulus = rng.urange(2, 4) as u32;
                let rem = rng.below(modulus as usize) as u32;
                let keep = move |w: u32| w % modulus != rem;
                let mut seen: Vec<(usize, u32)> = vec![];
                if rng.coin() {
                    cx.log(|| format!("#{} retain_nodes(w % {} != {})", step, modulus, rem));
                    st.g.retain_nodes(|fr, i| {
                        let w = fr[i];
                        seen.push((i.index(), w));
                        keep(w)
                    });
                    let mut ws: Vec<u32> = seen.iter().map(|x| x.1).collect();
                    ws.sort_unstable();
                    let mut want: Vec<u32> = st.m.nodes.iter().map(|x| x.unwrap()).collect();
                    want.sort_unstable();
                    cx.ensure(ws == want, "Graph:retain_nodes-closure-arguments", || format!("closure saw node weights {:?}, graph had {:?}", ws, want))?;
                    let map = adopt_nodes(cx, &st.g, &st.m, &keep, "retain_nodes")?;
                    let expected: Vec<ME> = st.m.edges.iter().flatten().filter(|e| map[e.src].is_some() && map[e.dst].is_some()).map(|e| {
                        let mut x = e.clone();
                        x.src = map[e.src].unwrap();
                        x.dst = map[e.dst].unwrap();
                        x
                    }).collect();
                    let mut new_nodes = vec![None; st.g.node_count()];
                    for (old, nw) in map.iter().enumerate() {
                        if let Some(i) = nw {
                            new_nodes[*i] = st.m.nodes[old];
                        }
                    }
                    st.m.nodes = new_nodes;
                    adopt_edges(cx, &st.g, &mut st.m, expected, "retain_nodes")?;
                } else {
                    cx.log(|| format!("#{} retain_edges(w % {} != {})", step, modulus, rem));
                    st.g.retain_edges(|fr, e| {
                        let w = fr[e];
                        seen.push((e.index(), w));
                        keep(w)
                    });
                    let mut ws: Vec<u32> = seen.iter().map(|x| x.1).collect();
                    ws.sort_unstable();
                    let mut want: Vec<u32> = st.m.edges.iter().map(|x| x.as_ref().unwrap().w).collect();
                    want.sort_unstable();
                    cx.ensure(ws == want, "Graph:retain_edges-closure-arguments", || format!("closure saw edge weights {:?}, graph had {:?}", ws, want))?;
                    let expected: Vec<ME> = st.m.edges.iter().flatten().filter(|e| keep(e.w)).cloned().collect();
                    adopt_edges(cx, &st.g, &mut st.m, expected, "retain_edges")?;
                }
                removals += 1;
            }
            9 => {
                if rng.coin() {
                    cx.log(|| format!("#{} map(identity weights + 1000000)", step));
                    let mut nseen = vec![];
                    let mut eseen = vec![];
                    let g2 = st.g.map(|i, w| { nseen.push((i.index(), *w)); *w }, |e, w| { eseen.push((e.index(), *w)); *w });
                    let wn: Vec<(usize, u32)> = st.m.nodes.iter().enumerate().map(|(i, w)| (i, w.unwrap())).collect();
                    let we: Vec<(usize, u32)> = st.m.edges.iter().enumerate().map(|(i, e)| (i, e.as_ref().unwrap().w)).collect();
                    cx.ensure(nseen == wn && eseen == we, "Graph:map-closure-arguments", || format!("map closures saw {:?} / {:?}", nseen, eseen))?;
                    st.g = g2;
                } else {
                    let modulus = rng.urange(2, 5) as u32;
                    cx.log(|| format!("#{} filter_map(drop w % {} == 0)", step, modulus));
                    let mut nseen = vec![];
                    let mut eseen = vec![];
                    let g2 = st.g.filter_map(
                        |i, w| { nseen.push((i.index(), *w)); if *w % modulus == 0 { None } else { Some(*w) } },
                        |e, w| { eseen.push((e.index(), *w)); if *w % modulus == 1 { None } else { Some(*w) } },
                    );
                    let wn: Vec<(usize, u32)> = st.m.nodes.iter().enumerate().map(|(i, w)| (i, w.unwrap())).collect();
                    cx.ensure(nseen == wn, "Graph:filter_map-node-closure-arguments", || format!("saw {:?}, nodes {:?}", nseen, wn))?;
                    // new numbering: kept nodes in index order, kept edges in index order
                    let mut map = vec![None; n];
                    let mut nn = vec![];
                    for (i, w) in st.m.nodes.iter().enumerate() {
                        if w.unwrap() % modulus != 0 {
                            map[i] = Some(nn.len());
                            nn.push(*w);
                        }
                    }
                    let mut ne = vec![];
                    let mut want_eseen = vec![];
                    let mut seq = st.m.next_seq;
                    for (i, e) in st.m.edges.iter().enumerate() {
                        let e = e.as_ref().unwrap();
                        if let (Some(a), Some(b)) = (map[e.src], map[e.dst]) {
                            want_eseen.push((i, e.w));
                            if e.w % modulus != 1 {
                                ne.push(Some(ME { src: a, dst: b, w: e.w, seq }));
                                seq += 1;
                            }
                        }
                    }
                    cx.ensure(eseen == want_eseen, "Graph:filter_map-edge-closure-arguments", || format!("saw {:?}, expected {:?}", eseen, want_eseen))?;
                    st.m.nodes = nn;
                    st.m.edges = ne;
                    st.m.next_seq = seq;
                    st.g = g2;
                    removals += 1;
                }
            }
            10 => {
                let k = rng.urange(1, 4);
                let hi = (n + 2).min(imax::<Ix>().saturating_sub(1)).min(if cap_mode { 254 } else { maxn + 2 });
                if hi == 0 || me + k >= imax::<Ix>() {
                    continue;
                }
                let mut es = vec![];
                for _ in 0..k {
                    let w = st.m.fresh_w();
                    es.push((rng.below(hi + 1).min(hi), rng.below(hi + 1).min(hi), w));
                }
                cx.log(|| format!("#{} extend_with_edges({:?})", step, es));
                st.g.extend_with_edges(es.iter().map(|&(a, b, w)| (NodeIndex::<Ix>::new(a), NodeIndex::<Ix>::new(b), w)));
                for &(a, b, w) in &es {
                    while st.m.nodes.len() <= a.max(b) {
                        // created with the default weight; relabelled below
                        st.m.nodes.push(Some(0));
                    }
                    st.m.push_edge(a, b, w);
                }
                for i in n..st.m.nodes.len() {
                    let w = st.m.fresh_w();
                    match st.g.node_weight_mut(NodeIndex::new(i)) {
                        Some(x) => {
                            cx.ensure(*x == 0, "Graph:extend_with_edges-node-not-default", || format!("node {} has weight {}", i, *x))?;
                            *x = w;
                        }
                        None => cx.ensure(false, "Graph:extend_with_edges-node-missing", || format!("node {} was not created", i))?,
                    }
                    st.m.nodes[i] = Some(w);
                }
            }
            11 => {
                cx.log(|| format!("#{} clone / clone_from", step));
                match rng.below(4) {
                    0 => st.g = st.g.clone(),
                    1 => {
                        let mut other = Graph::<u32, u32, Ty, Ix>::with_capacity(0, 0);
                        other.add_node(1);
                        other.clone_from(&st.g);
                        st.g = other;
                    }
                    2 if snap.is_some() => {
                        // destination: an earlier state of this very history (same prefix, different links)
                        let mut other = snap.take().unwrap();
                        cx.log(|| format!("   clone_from into an earlier snapshot with {} nodes / {} edges", other.node_count(), other.edge_count()));
                        other.clone_from(&st.g);
                        st.g = other;
                        cx.count("Graph:clone_from-into-earlier-snapshot");
                    }
                    _ => {
                        // destination: an unrelated populated graph, smaller or larger than the source
                        let mut other = Graph::<u32, u32, Ty, Ix>::with_capacity(0, 0);
                        let n = 1 + rng.below(2 * st.g.node_count().min(20) + 3);
                        for k in 0..n {
                            other.add_node(1_000_000 + k as u32);
                        }
                        for k in 0..rng.below(2 * st.g.edge_count().min(30) + 4) {
                            other.add_edge(NodeIndex::new(rng.below(n)), NodeIndex::new(rng.below(n)), 2_000_000 + k as u32);
                        }
                        cx.log(|| format!("   clone_from into an unrelated graph with {} nodes / {} edges", other.node_count(), other.edge_count()));
                        other.clone_from(&st.g);
                        st.g = other;
                        cx.count("Graph:clone_from-into-populated-graph");
                    }
                }
                if rng.coin() {
                    snap = Some(st.g.clone());
                }
                mutated = true;
            }
            12 => {
                cx.log(|| format!("#{} into_edge_type::<other>() and back", step));
                let flipped: Graph<u32, u32, <Ty as Flip>::Other, Ix> = std::mem::take(&mut st.g).into_edge_type();
                st.m.directed = !st.m.directed;
                let saved = std::mem::replace(&mut cx.config, format!("Graph<{},{}>/via-into_edge_type", if st.m.directed { "Directed" } else { "Undirected" }, ixname));
                let r = sweep_graph(cx, &flipped, &st.m, true, step);
                cx.config = saved;
                st.m.directed = !st.m.directed;
                st.g = flipped.into_edge_type();
                r?;
            }
            13 => {
                match rng.below(3) {
                    0 => {
                        cx.log(|| format!("#{} Graph -> StableGraph -> Graph", step));
                        let sg: StableGraph<u32, u32, Ty, Ix> = StableGraph::from(st.g.clone());
                        cx.ensure(sg.node_count() == n && sg.edge_count() == me, "Graph:into-StableGraph-counts", || "counts differ".into())?;
                        for e in sg.edge_references() {
                            let x = st.m.e(e.id().index());
                            cx.ensure((x.src, x.dst, x.w) == (e.source().index(), e.target().index(), *e.weight()), "Graph:into-StableGraph-edges", || format!("edge {} differs", e.id().index()))?;
                        }
                        st.g = Graph::from(sg);
                        // the conversion re-adds every edge in index order: adjacency order is now index order
                        for i in 0..st.m.edges.len() {
                            let seq = st.m.next_seq;
                            st.m.next_seq += 1;
                            st.m.edges[i].as_mut().unwrap().seq = seq;
                        }
                    }
                    1 => {
                        cx.log(|| format!("#{} into_nodes_edges on a clone", step));
                        let (ns, es) = st.g.clone().into_nodes_edges();
                        let wn: Vec<u32> = ns.iter().map(|x| x.weight).collect();
                        let we: Vec<(usize, usize, u32)> = es.iter().map(|x| (x.source().index(), x.target().index(), x.weight)).collect();
                        let mn: Vec<u32> = st.m.nodes.iter().map(|x| x.unwrap()).collect();
                        let mee: Vec<(usize, usize, u32)> = st.m.edges.iter().map(|e| { let e = e.as_ref().unwrap(); (e.src, e.dst, e.w) }).collect();
                        cx.ensure(wn == mn && we == mee, "Graph:into_nodes_edges", || format!("{:?} {:?}", wn, we))?;
                    }
                    _ => {
                        cx.log(|| format!("#{} DataMap views", step));
                        for i in 0..n.min(4) {
                            cx.ensure(DataMap::node_weight(&st.g, NodeIndex::new(i)) == st.m.nodes[i].as_ref(), "Graph:DataMap::node_weight", || "differs".into())?;
                        }
                        cx.ensure(DataMap::node_weight(&st.g, NodeIndex::new(n)).is_none(), "Graph:DataMap::node_weight-absent", || "Some for absent".into())?;
                    }
                }
                mutated = false;
            }
            14 => {
                if n >= 2 && !cx.skips("index_twice_mut") {
                    let (a, b) = (rng.below(n), rng.below(n));
                    let (w1, w2) = (st.m.fresh_w(), st.m.fresh_w());
                    cx.log(|| format!("#{} index_twice_mut({}, {})", step, a, b));
                    let (ai, bi) = (NodeIndex::<Ix>::new(a), NodeIndex::<Ix>::new(b));
                    let via_frozen = rng.coin();
                    let r = catch(|| {
                        if via_frozen {
                            let mut fr = petgraph::graph::Frozen::new(&mut st.g);
                            let (x, y) = fr.index_twice_mut(ai, bi);
                            *x = w1;
                            *y = w2;
                        } else {
                            let (x, y) = st.g.index_twice_mut(ai, bi);
                            *x = w1;
                            *y = w2;
                        }
                    });
                    match r {
                        Ok(()) => {
                            cx.ensure(a != b, "Graph:index_twice_mut-same-index-no-panic", || format!("index_twice_mut({},{}) did not panic", a, b))?;
                            st.m.nodes[a] = Some(w1);
                            st.m.nodes[b] = Some(w2);
                        }
                        Err(p) => cx.ensure(a == b, "Graph:index_twice_mut-unexpected-panic", || format!("({},{}) panicked: {}", a, b, p.short()))?,
                    }
                    if me > 0 {
                        // a node and an edge index may coincide numerically
                        let e = rng.below(me);
                        let (w3, w4) = (st.m.fresh_w(), st.m.fresh_w());
                        let (x, y) = st.g.index_twice_mut(NodeIndex::<Ix>::new(a), EdgeIndex::<Ix>::new(e));
                        *x = w3;
                        *y = w4;
                        st.m.nodes[a] = Some(w3);
                        st.m.edges[e].as_mut().unwrap().w = w4;
                        // two edge indices: distinct ones are fine, equal ones must panic (documented) and change nothing
                        let e2 = if rng.chance(1, 3) { e } else { rng.below(me) };
                        let (w5, w6) = (st.m.fresh_w(), st.m.fresh_w());
                        cx.log(|| format!("   index_twice_mut(edge {}, edge {})", e, e2));
                        let r = catch(|| {
                            let (x, y) = st.g.index_twice_mut(EdgeIndex::<Ix>::new(e), EdgeIndex::<Ix>::new(e2));
                            *x = w5;
                            *y = w6;
                        });
                        match r {
                            Ok(()) => {
                                cx.ensure(e != e2, "Graph:index_twice_mut-same-edge-index-no-panic", || format!("index_twice_mut(edge {}, edge {}) handed out two references to one weight", e, e2))?;
                                st.m.edges[e].as_mut().unwrap().w = w5;
                                st.m.edges[e2].as_mut().unwrap().w = w6;
                            }
                            Err(p) => cx.ensure(e == e2, "Graph:index_twice_mut-unexpected-panic", || format!("(edge {}, edge {}) panicked: {}", e, e2, p.short()))?,
                        }
                    }
                }
            }
            _ => {
                cx.log(|| format!("#{} capacity operations", step));
                match rng.below(6) {
                    0 => st.g.reserve_nodes(rng.below(10)),
                    1 => st.g.reserve_edges(rng.below(10)),
                    2 => st.g.reserve_exact_nodes(rng.below(10)),
                    3 => st.g.reserve_exact_edges(rng.below(10)),
                    4 => st.g.shrink_to_fit(),
                    _ => {
                        st.g.shrink_to_fit_nodes();
                        st.g.shrink_to_fit_edges();
                    }
                }
                let (cn, ce) = st.g.capacity();
                cx.ensure(cn >= n && ce >= me, "Graph:capacity-below-len", || format!("capacity {:?} with {} nodes {} edges", (cn, ce), n, me))?;
            }
        }
        let nn = st.m.nodes.len();
        if mutated && (nn <= 12 || step % 10 == 9) {
            full_sweep(cx, &st, step)?;
        }
    }
    full_sweep(cx, &st, 1)?;
    cx.note_case(kinds.0 ^ st.m.structure_hash(), nops >= 10 && removals >= 1);
    Ok(())
}

pub fn case(cx: &mut Cx, rng: &mut Rng) -> R {
    let w = rng.below(4);
    if rng.coin() {
        match w {
            0 => history::<Directed, u8>(cx, rng, "u8"),
            1 => history::<Directed, u16>(cx, rng, "u16"),
            2 => history::<Directed, u32>(cx, rng, "u32"),
            _ => history::<Directed, usize>(cx, rng, "usize"),
        }
    } else {
        match w {
            0 => history::<Undirected, u8>(cx, rng, "u8"),
            1 => history::<Undirected, u16>(cx, rng, "u16"),
            2 => history::<Undirected, u32>(cx, rng, "u32"),
            _ => history::<Undirected, usize>(cx, rng, "usize"),
        }
    }
}
