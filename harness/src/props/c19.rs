//! C19 - UnionFind against a partition model (label vector), with representative stability
//! between unions, exact try_* error reporting, documented panics and raw-array invariants.

use crate::cx::{catch, Cx, R};
use crate::rng::Rng;
use petgraph::graph::IndexType;
use petgraph::unionfind::UnionFind;

struct Model {
    label: Vec<usize>,
    /// representative observed for each class label since the last union touching it
    rep: Vec<Option<usize>>,
}

impl Model {
    fn same(&self, a: usize, b: usize) -> bool {
        self.label[a] == self.label[b]
    }
    fn union(&mut self, a: usize, b: usize) -> bool {
        let (la, lb) = (self.label[a], self.label[b]);
        if la == lb {
            return false;
        }
        for x in self.label.iter_mut() {
            if *x == lb {
                *x = la;
            }
        }
        self.rep[la] = None;
        self.rep[lb] = None;
        true
    }
    fn push(&mut self) {
        let n = self.label.len();
        self.label.push(n);
        self.rep.push(None);
    }
}

fn check_rep(cx: &mut Cx, m: &mut Model, x: usize, got: usize, what: &str) -> R {
    let n = m.label.len();
    cx.ensure(got < n && m.label[got] == m.label[x], &format!("{}:representative-outside-class", what), || {
        format!("{}({}) = {} which is not in the class of {}", what, x, got, x)
    })?;
    let l = m.label[x];
    match m.rep[l] {
        None => m.rep[l] = Some(got),
        Some(r) => cx.ensure(r == got, &format!("{}:representative-changed-without-union", what), || {
            format!("{}({}) = {}, but the class representative was {} and no union happened since", what, x, got, r)
        })?,
    }
    Ok(())
}

fn raw_invariants<K: IndexType>(cx: &mut Cx, uf: &UnionFind<K>, m: &Model) -> R {
    let (parent, rank) = uf.verif_raw();
    let n = m.label.len();
    cx.ensure(parent.len() == n && rank.len() == n, "raw:length", || format!("parent {} rank {} model {}", parent.len(), rank.len(), n))?;
    for x in 0..n {
        cx.ensure(parent[x] < n, "raw:parent-out-of-range", || format!("parent[{}] = {}", x, parent[x]))?;
    }
    for x in 0..n {
        let mut cur = x;
        let mut steps = 0;
        while parent[cur] != cur {
            cur = parent[cur];
            steps += 1;
            cx.ensure(steps <= n, "raw:parent-cycle", || format!("parent chain from {} does not reach a root", x))?;
        }
        cx.ensure(m.label[cur] == m.label[x], "raw:root-outside-class", || format!("root of {} is {} (different class)", x, cur))?;
    }
    Ok(())
}

fn sweep<K: IndexType>(cx: &mut Cx, uf: &UnionFind<K>, m: &mut Model, full: bool) -> R {
    let n = m.label.len();
    cx.ensure(uf.len() == n, "len", || format!("len() = {}, model {}", uf.len(), n))?;
    cx.ensure(uf.is_empty() == (n == 0), "is_empty", || "is_empty disagrees".into())?;
    let step = if full || n <= 24 { 1 } else { n / 12 };
    let mut x = 0;
    while x < n {
        let r = uf.find(K::new(x)).index();
        check_rep(cx, m, x, r, "find")?;
        let r2 = uf.try_find(K::new(x)).map(|k| k.index());
        cx.ensure(r2 == Some(r), "try_find==find", || format!("try_find({}) = {:?}, find = {}", x, r2, r))?;
        let mut y = 0;
        while y < n {
            let e = uf.equiv(K::new(x), K::new(y));
            cx.ensure(e == m.same(x, y), "equiv", || format!("equiv({},{}) = {}, model {}", x, y, e, m.same(x, y)))?;
            let e2 = uf.try_equiv(K::new(x), K::new(y));
            cx.ensure(e2 == Ok(e), "try_equiv==equiv", || format!("try_equiv({},{}) = {:?}", x, y, e2))?;
            y += step;
        }
        x += step;
    }
    raw_invariants(cx, uf, m)
}

fn labeling<K: IndexType>(cx: &mut Cx, uf: &UnionFind<K>, m: &mut Model) -> R {
    let lab = uf.clone().into_labeling();
    let n = m.label.len();
    cx.ensure(lab.len() == n, "into_labeling:length", || format!("{} labels for {} elements", lab.len(), n))?;
    for x in 0..n {
        let l = lab[x].index();
        cx.ensure(l < n && m.label[l] == m.label[x], "into_labeling:label-outside-class", || format!("label of {} is {}", x, l))?;
        // "one fixed member of its class, the same for all members" - and the same as find
        check_rep(cx, m, x, l, "into_labeling")?;
    }
    Ok(())
}

fn kmax<K: IndexType>() -> usize {
    <K as IndexType>::max().index()
}

fn oor<K: IndexType>(rng: &mut Rng, n: usize) -> Option<usize> {
    let max = kmax::<K>();
    let cands = [n, n + 1, max, max.wrapping_sub(1), n + 7];
    let c = cands[rng.below(cands.len())];
    // must be representable in K and really out of range
    if c >= n && c <= max {
        Some(c)
    } else {
        None
    }
}

fn history<K: IndexType>(cx: &mut Cx, rng: &mut Rng, kname: &str) -> R {
    cx.config = format!("UnionFind<{}>", kname);
    let small = cx.small;
    let cap = if kmax::<K>() == 255 { 256 } else if small { 40 } else { 300 };
    let n0 = match rng.below(5) {
        0 => 0,
        1 => rng.below(4),
        2 if kmax::<K>() == 255 && !small => 256,
        _ => rng.below(if small { 12 } else { 40 }),
    }
    .min(cap);
    let mut uf: UnionFind<K> = match rng.below(3) {
        0 => UnionFind::new(n0),
        1 => {
            let mut u = UnionFind::new_empty();
            for _ in 0..n0 {
                u.new_set();
            }
            u
        }
        _ => {
            let mut u = UnionFind::with_capacity(rng.below(10));
            for _ in 0..n0 {
                u.new_set();
            }
            u
        }
    };
    cx.log(|| format!("UnionFind<{}> with {} elements", kname, n0));
    let mut m = Model { label: (0..n0).collect(), rep: vec![None; n0] };
    let nops = if small { rng.urange(10, 40) } else { rng.urange(30, 400) };
    let mut nunions = 0;
    for step in 0..nops {
        let n = m.label.len();
        let arg = |rng: &mut Rng| -> (usize, bool) {
            // (value, in range)
            if n == 0 || rng.chance(1, 5) {
                match oor::<K>(rng, n) {
                    Some(v) => (v, false),
                    None => (if n > 0 { rng.below(n) } else { 0 }, n > 0),
                }
            } else {
                (rng.below(n), true)
            }
        };
        cx.ops += 1;
        match rng.weighted(&[30, 20, 8, 12, 8, 6, 6, 6, 6, 5, 3]) {
            0 | 1 => {
                // union / try_union
                let (x, xin) = arg(rng);
                let (y, yin) = if rng.chance(1, 10) { (x, xin) } else { arg(rng) };
                let use_try = rng.coin();
                cx.log(|| format!("#{} {}({}, {})", step, if use_try { "try_union" } else { "union" }, x, y));
                let want: Result<bool, usize> = if x == y {
                    Ok(false)
                } else if !xin {
                    Err(x)
                } else if !yin {
                    Err(y)
                } else {
                    Ok(!m.same(x, y))
                };
                if use_try {
                    let got = uf.try_union(K::new(x), K::new(y)).map_err(|k| k.index());
                    cx.ensure(got == want, "try_union:result", || format!("try_union({},{}) = {:?}, model {:?}", x, y, got, want))?;
                } else {
                    let got = catch(|| uf.union(K::new(x), K::new(y)));
                    match (&got, &want) {
                        (Ok(b), Ok(w)) => cx.ensure(b == w, "union:result", || format!("union({},{}) = {}, model {}", x, y, b, w))?,
                        (Err(_), Err(_)) => {}
                        (Ok(b), Err(_)) => cx.ensure(false, "union:no-panic-on-out-of-range", || format!("union({},{}) returned {} instead of panicking", x, y, b))?,
                        (Err(p), Ok(_)) => cx.ensure(false, "union:unexpected-panic", || format!("union({},{}) panicked: {}", x, y, p.short()))?,
                    }
                }
                if let Ok(true) = want {
                    m.union(x, y);
                    nunions += 1;
                } else if want.is_err() {
                    sweep(cx, &uf, &mut m, false)?;
                }
            }
            2 => {
                // find_mut / try_find_mut (path compression must not change any answer)
                let (x, xin) = arg(rng);
                let use_try = rng.coin();
                cx.log(|| format!("#{} {}({})", step, if use_try { "try_find_mut" } else { "find_mut" }, x));
                if use_try {
                    let got = uf.try_find_mut(K::new(x)).map(|k| k.index());
                    cx.ensure(got.is_some() == xin, "try_find_mut:some-iff-in-range", || format!("try_find_mut({}) = {:?}, len {}", x, got, n))?;
                    if let Some(r) = got {
                        check_rep(cx, &mut m, x, r, "try_find_mut")?;
                    }
                } else {
                    let got = catch(|| uf.find_mut(K::new(x)).index());
                    match got {
                        Ok(r) => {
                            cx.ensure(xin, "find_mut:no-panic-on-out-of-range", || format!("find_mut({}) returned {} with len {}", x, r, n))?;
                            check_rep(cx, &mut m, x, r, "find_mut")?;
                        }
                        Err(p) => cx.ensure(!xin, "find_mut:unexpected-panic", || format!("find_mut({}) panicked: {}", x, p.short()))?,
                    }
                }
            }
            3 => {
                // compress everything, then nothing may have changed
                cx.log(|| format!("#{} find_mut on every element", step));
                for x in 0..n {
                    let r = uf.find_mut(K::new(x)).index();
                    check_rep(cx, &mut m, x, r, "find_mut")?;
                }
            }
            4 => {
                let (x, xin) = arg(rng);
                cx.log(|| format!("#{} find/try_find({})", step, x));
                let t = uf.try_find(K::new(x)).map(|k| k.index());
                cx.ensure(t.is_some() == xin, "try_find:some-iff-in-range", || format!("try_find({}) = {:?}, len {}", x, t, n))?;
                let got = catch(|| uf.find(K::new(x)).index());
                match got {
                    Ok(r) => {
                        cx.ensure(xin, "find:no-panic-on-out-of-range", || format!("find({}) = {} with len {}", x, r, n))?;
                        check_rep(cx, &mut m, x, r, "find")?;
                    }
                    Err(p) => cx.ensure(!xin, "find:unexpected-panic", || format!("find({}) panicked: {}", x, p.short()))?,
                }
            }
            5 => {
                let (x, xin) = arg(rng);
                let (y, yin) = if rng.chance(1, 8) { (x, xin) } else { arg(rng) };
                cx.log(|| format!("#{} equiv/try_equiv({}, {})", step, x, y));
                let want: Result<bool, usize> = if !xin { Err(x) } else if !yin { Err(y) } else { Ok(m.same(x, y)) };
                let t = uf.try_equiv(K::new(x), K::new(y)).map_err(|k| k.index());
                cx.ensure(t == want, "try_equiv:result", || format!("try_equiv({},{}) = {:?}, model {:?}", x, y, t, want))?;
                let got = catch(|| uf.equiv(K::new(x), K::new(y)));
                match (&got, &want) {
                    (Ok(b), Ok(w)) => cx.ensure(b == w, "equiv:result", || format!("equiv({},{}) = {}, model {}", x, y, b, w))?,
                    (Err(_), Err(_)) => {}
                    (Ok(b), Err(_)) => cx.ensure(false, "equiv:no-panic-on-out-of-range", || format!("equiv({},{}) returned {}", x, y, b))?,
                    (Err(p), Ok(_)) => cx.ensure(false, "equiv:unexpected-panic", || format!("equiv({},{}) panicked: {}", x, y, p.short()))?,
                }
            }
            6 => {
                if n < cap {
                    cx.log(|| format!("#{} new_set()", step));
                    let k = uf.new_set().index();
                    cx.ensure(k == n, "new_set:index", || format!("new_set() = {}, expected {}", k, n))?;
                    m.push();
                }
            }
            7 => {
                cx.log(|| format!("#{} into_labeling on a clone", step));
                labeling(cx, &uf, &mut m)?;
            }
            8 => {
                cx.log(|| format!("#{} capacity operations", step));
                match rng.below(6) {
                    0 => uf.reserve(rng.below(20)),
                    1 => uf.reserve_exact(rng.below(20)),
                    2 => uf.shrink_to_fit(),
                    3 => uf.shrink_to(rng.below(20)),
                    4 => {
                        let _ = uf.try_reserve(rng.below(20));
                    }
                    _ => {
                        let _ = uf.try_reserve_exact(rng.below(20));
                    }
                }
                cx.ensure(uf.capacity() >= n, "capacity<len", || format!("capacity {} < len {}", uf.capacity(), n))?;
            }
            9 => {
                cx.log(|| format!("#{} clone", step));
                uf = uf.clone();
            }
            _ => {
                cx.log(|| format!("#{} full sweep", step));
                sweep(cx, &uf, &mut m, false)?;
            }
        }
        if step % 16 == 15 {
            sweep(cx, &uf, &mut m, false)?;
        }
    }
    let full = m.label.len() <= 64;
    sweep(cx, &uf, &mut m, full)?;
    labeling(cx, &uf, &mut m)?;
    let n = m.label.len();
    let mut h = crate::cx::H::new();
    h.add_str(kname);
    for &l in &m.label {
        h.add(l as u64);
    }
    h.add(nops as u64);
    cx.note_case(h.0, n >= 4 && nunions >= 2);
    if n == 256 {
        cx.count("feature:u8-full-256");
    }
    cx.count_n("unions-that-merged", nunions);
    Ok(())
}

pub fn case(cx: &mut Cx, rng: &mut Rng) -> R {
    match rng.below(4) {
        0 => history::<u8>(cx, rng, "u8"),
        1 => history::<u16>(cx, rng, "u16"),
        2 => history::<u32>(cx, rng, "u32"),
        _ => history::<usize>(cx, rng, "usize"),
    }
}
