//! C08 - Dfs, Bfs, DfsPostOrder, Topo and depth_first_search against reachability oracles
//! and an offline trace checker over the recorded DFS event log.

use crate::abs::{gen, Abs, GenOpts};
use crate::corr::Back;
use crate::cx::{catch, Cx, R};
use crate::oracle::*;
use crate::rng::Rng;
use petgraph::visit::*;

fn seq_abs<G: NodeIndexable + Copy>(cx: &mut Cx, g: G, back: &Back, seq: &[G::NodeId], what: &str) -> R<Vec<usize>> {
    let mut v = Vec::with_capacity(seq.len());
    for &id in seq {
        v.push(back.abs(cx, g, id, what)?);
    }
    Ok(v)
}

fn check_set_once(cx: &mut Cx, n: usize, seq: &[usize], want: &[bool], what: &str) -> R {
    let mut seen = vec![false; n];
    for &v in seq {
        cx.ensure(!seen[v], &format!("{}:node-twice", what), || format!("node {} emitted twice in {:?}", v, seq))?;
        seen[v] = true;
    }
    cx.ensure(seen == want, &format!("{}:set", what), || {
        let w: Vec<usize> = (0..n).filter(|&i| want[i]).collect();
        format!("emitted {:?}, expected exactly the set {:?}", seq, w)
    })
}

/// nodes reachable from x along paths that avoid `blocked` (x itself must not be blocked)
fn reach_avoiding(abs: &Abs, x: usize, blocked: &[bool]) -> Vec<bool> {
    let adj = abs.out_adj();
    let mut r = vec![false; abs.n];
    if blocked[x] {
        return r;
    }
    r[x] = true;
    let mut st = vec![x];
    while let Some(u) = st.pop() {
        for &(v, _) in &adj[u] {
            if !r[v] && !blocked[v] {
                r[v] = true;
                st.push(v);
            }
        }
    }
    r
}

const CAP_SLACK: usize = 3;

pub fn check_walkers<G>(cx: &mut Cx, rng: &mut Rng, abs: &Abs, cl: &[Vec<bool>], g: G, ids: &[G::NodeId]) -> R
where
    G: IntoNeighbors + Visitable + NodeIndexable + Copy,
    G::Map: Default,
{
    if abs.n == 0 {
        return Ok(());
    }
    let back = Back::new(g, ids);
    let cap = abs.n + CAP_SLACK;
    let s = rng.below(abs.n);
    let want: Vec<bool> = (0..abs.n).map(|v| cl[s][v]).collect();
    // ---- Dfs
    let mut dfs = Dfs::new(g, ids[s]);
    let mut seq = vec![];
    while let Some(x) = dfs.next(g) {
        seq.push(x);
        cx.ensure(seq.len() <= cap, "Dfs:overrun", || "Dfs emitted more nodes than the graph has".into())?;
    }
    let sa = seq_abs(cx, g, &back, &seq, "Dfs")?;
    check_set_once(cx, abs.n, &sa, &want, "Dfs")?;
    cx.ensure(sa.first() == Some(&s), "Dfs:first-is-start", || format!("first emitted {:?}, start {}", sa.first(), s))?;
    // Walker::iter gives the same sequence
    let via_iter: Vec<G::NodeId> = Dfs::new(g, ids[s]).iter(g).take(cap).collect();
    let va = seq_abs(cx, g, &back, &via_iter, "Dfs.iter")?;
    cx.same(&va, &sa, "Dfs.iter==next-loop")?;
    // move_to after exhaustion: exactly reach(x) minus discovered
    let x = rng.below(abs.n);
    let mut discovered: Vec<bool> = want.clone();
    dfs.move_to(ids[x]);
    let mut seq2 = vec![];
    while let Some(y) = dfs.next(g) {
        seq2.push(y);
        cx.ensure(seq2.len() <= cap, "Dfs.move_to:overrun", || "overrun".into())?;
    }
    let s2 = seq_abs(cx, g, &back, &seq2, "Dfs.move_to")?;
    let want2: Vec<bool> = (0..abs.n).map(|v| cl[x][v] && !discovered[v]).collect();
    check_set_once(cx, abs.n, &s2, &want2, "Dfs.move_to(after-exhaustion)")?;
    for &v in &s2 {
        discovered[v] = true;
    }
    // reset then traverse again from x = fresh traversal
    dfs.reset(g);
    dfs.move_to(ids[x]);
    let mut seq3 = vec![];
    while let Some(y) = dfs.next(g) {
        seq3.push(y);
        cx.ensure(seq3.len() <= cap, "Dfs.reset:overrun", || "overrun".into())?;
    }
    let s3 = seq_abs(cx, g, &back, &seq3, "Dfs.reset")?;
    let fresh: Vec<G::NodeId> = Dfs::new(g, ids[x]).iter(g).take(cap).collect();
    let f3 = seq_abs(cx, g, &back, &fresh, "Dfs")?;
    cx.same(&s3, &f3, "Dfs.reset+move_to==fresh")?;
    // move_to in the middle of a traversal: discovered map kept, stack cleared
    let mut d = Dfs::new(g, ids[s]);
    let k = rng.below(sa.len().max(1));
    let mut emitted = vec![false; abs.n];
    for _ in 0..k {
        if let Some(y) = d.next(g) {
            emitted[back.abs(cx, g, y, "Dfs")?] = true;
        }
    }
    let want_mid = reach_avoiding(abs, x, &emitted);
    d.move_to(ids[x]);
    let mut seq4 = vec![];
    while let Some(y) = d.next(g) {
        seq4.push(y);
        cx.ensure(seq4.len() <= cap, "Dfs.move_to(mid):overrun", || "overrun".into())?;
    }
    let s4 = seq_abs(cx, g, &back, &seq4, "Dfs.move_to(mid)")?;
    check_set_once(cx, abs.n, &s4, &want_mid, "Dfs.move_to(mid-traversal)")?;

    // walkers created empty (Default) and then reset onto this graph
    let mut d0: Dfs<G::NodeId, G::Map> = Dfs::default();
    d0.reset(g);
    d0.move_to(ids[s]);
    let mut seq5 = vec![];
    while let Some(y) = d0.next(g) {
        seq5.push(y);
        cx.ensure(seq5.len() <= cap, "Dfs::default+reset:overrun", || "overrun".into())?;
    }
    let s5 = seq_abs(cx, g, &back, &seq5, "Dfs::default+reset")?;
    cx.same(&s5, &sa, "Dfs::default+reset==fresh")?;
    let mut p0: DfsPostOrder<G::NodeId, G::Map> = DfsPostOrder::default();
    p0.reset(g);
    p0.move_to(ids[s]);
    let mut seq6 = vec![];
    while let Some(y) = p0.next(g) {
        seq6.push(y);
        cx.ensure(seq6.len() <= cap, "DfsPostOrder::default+reset:overrun", || "overrun".into())?;
    }
    let s6 = seq_abs(cx, g, &back, &seq6, "DfsPostOrder::default+reset")?;
    check_set_once(cx, abs.n, &s6, &want, "DfsPostOrder::default+reset")?;

    // ---- Bfs
    let mut bfs = Bfs::new(g, ids[s]);
    let mut bseq = vec![];
    while let Some(y) = bfs.next(g) {
        bseq.push(y);
        cx.ensure(bseq.len() <= cap, "Bfs:overrun", || "Bfs emitted more nodes than the graph has".into())?;
    }
    let ba = seq_abs(cx, g, &back, &bseq, "Bfs")?;
    check_set_once(cx, abs.n, &ba, &want, "Bfs")?;
    let hops = hops_from(abs, &[s]);
    for w in ba.windows(2) {
        cx.ensure(hops[w[0]].unwrap() <= hops[w[1]].unwrap(), "Bfs:hop-order", || {
            format!("node {} (distance {:?}) emitted before node {} (distance {:?})", w[0], hops[w[0]], w[1], hops[w[1]])
        })?;
    }
    let bi: Vec<G::NodeId> = Bfs::new(g, ids[s]).iter(g).take(cap).collect();
    let bia = seq_abs(cx, g, &back, &bi, "Bfs.iter")?;
    cx.same(&bia, &ba, "Bfs.iter==next-loop")?;

    // ---- DfsPostOrder
    let mut po = DfsPostOrder::new(g, ids[s]);
    let mut pseq = vec![];
    while let Some(y) = po.next(g) {
        pseq.push(y);
        cx.ensure(pseq.len() <= cap, "DfsPostOrder:overrun", || "overrun".into())?;
    }
    let pa = seq_abs(cx, g, &back, &pseq, "DfsPostOrder")?;
    check_set_once(cx, abs.n, &pa, &want, "DfsPostOrder")?;
    let mut pos = vec![usize::MAX; abs.n];
    for (i, &v) in pa.iter().enumerate() {
        pos[v] = i;
    }
    let adj = abs.out_adj();
    for u in 0..abs.n {
        if !want[u] {
            continue;
        }
        for &(v, _) in &adj[u] {
            if v != u && !cl[v][u] {
                cx.ensure(pos[v] < pos[u], "DfsPostOrder:successor-first", || {
                    format!("edge {}->{} ({} cannot reach {} back) but {} was emitted before {}", u, v, v, u, u, v)
                })?;
            }
        }
    }
    cx.ensure(pa.last() == Some(&s), "DfsPostOrder:start-last", || format!("last emitted {:?}, start {}", pa.last(), s))?;
    // move_to after exhaustion
    let mut disc: Vec<bool> = want.clone();
    po.move_to(ids[x]);
    let mut p2 = vec![];
    while let Some(y) = po.next(g) {
        p2.push(y);
        cx.ensure(p2.len() <= cap, "DfsPostOrder.move_to:overrun", || "overrun".into())?;
    }
    let p2a = seq_abs(cx, g, &back, &p2, "DfsPostOrder.move_to")?;
    let wantp2: Vec<bool> = (0..abs.n).map(|v| cl[x][v] && !disc[v]).collect();
    check_set_once(cx, abs.n, &p2a, &wantp2, "DfsPostOrder.move_to(after-exhaustion)")?;
    for &v in &p2a {
        disc[v] = true;
    }
    po.reset(g);
    po.move_to(ids[x]);
    let mut p3 = vec![];
    while let Some(y) = po.next(g) {
        p3.push(y);
        cx.ensure(p3.len() <= cap, "DfsPostOrder.reset:overrun", || "overrun".into())?;
    }
    let p3a = seq_abs(cx, g, &back, &p3, "DfsPostOrder.reset")?;
    let pf: Vec<G::NodeId> = DfsPostOrder::new(g, ids[x]).iter(g).take(cap).collect();
    let pfa = seq_abs(cx, g, &back, &pf, "DfsPostOrder")?;
    cx.same(&p3a, &pfa, "DfsPostOrder.reset+move_to==fresh")?;
    // move_to in the middle of a traversal ("keep the discovered and finished map, but clear the visit stack"):
    // the public `discovered` map tells which nodes are closed to the restarted walk
    let mut pm = DfsPostOrder::new(g, ids[s]);
    let k = rng.below(pa.len().max(1));
    let mut fin = vec![false; abs.n];
    for _ in 0..k {
        if let Some(y) = pm.next(g) {
            fin[back.abs(cx, g, y, "DfsPostOrder")?] = true;
        }
    }
    let disc_mid: Vec<bool> = (0..abs.n).map(|v| pm.discovered.is_visited(&ids[v])).collect();
    let want_mid: Vec<bool> = if !disc_mid[x] {
        reach_avoiding(abs, x, &disc_mid)
    } else {
        // already discovered: it is finished now if it was not (an open ancestor of the abandoned walk), nothing else
        (0..abs.n).map(|v| v == x && !fin[x]).collect()
    };
    pm.move_to(ids[x]);
    let mut p4 = vec![];
    while let Some(y) = pm.next(g) {
        p4.push(y);
        cx.ensure(p4.len() <= cap, "DfsPostOrder.move_to(mid):overrun", || "overrun".into())?;
    }
    let p4a = seq_abs(cx, g, &back, &p4, "DfsPostOrder.move_to(mid)")?;
    check_set_once(cx, abs.n, &p4a, &want_mid, "DfsPostOrder.move_to(mid-traversal)")?;
    Ok(())
}

pub fn check_topo<G>(cx: &mut Cx, abs: &Abs, cl: &[Vec<bool>], g: G, ids: &[G::NodeId]) -> R
where
    G: IntoNodeIdentifiers + IntoNeighborsDirected + Visitable + NodeIndexable + Copy,
{
    let back = Back::new(g, ids);
    let oc = on_cycle(abs, cl);
    // emitted <=> no cycle node among ancestors-or-self
    let want: Vec<bool> = (0..abs.n).map(|v| !(0..abs.n).any(|c| oc[c] && cl[c][v])).collect();
    let cap = abs.n + CAP_SLACK;
    let mut topo = Topo::new(g);
    for round in 0..2 {
        let what = if round == 0 { "Topo" } else { "Topo.reset" };
        let mut seq = vec![];
        while let Some(y) = topo.next(g) {
            seq.push(y);
            cx.ensure(seq.len() <= cap, &format!("{}:overrun", what), || "Topo emitted more nodes than the graph has".into())?;
        }
        let sa = seq_abs(cx, g, &back, &seq, what)?;
        check_set_once(cx, abs.n, &sa, &want, what)?;
        let mut pos = vec![usize::MAX; abs.n];
        for (i, &v) in sa.iter().enumerate() {
            pos[v] = i;
        }
        for &(u, v, _) in &abs.edges {
            if pos[v] != usize::MAX {
                cx.ensure(pos[u] != usize::MAX && pos[u] < pos[v], &format!("{}:predecessor-first", what), || {
                    format!("edge {}->{}: {} emitted at {} but predecessor {} at {:?}", u, v, v, pos[v], u, pos[u])
                })?;
            }
        }
        let acyclic = !has_directed_cycle(abs, cl);
        cx.ensure((sa.len() == abs.n) == acyclic, &format!("{}:all-iff-acyclic", what), || {
            format!("emitted {} of {} nodes, acyclic={}", sa.len(), abs.n, acyclic)
        })?;
        topo.reset(g);
    }
    let vi: Vec<G::NodeId> = Topo::new(g).iter(g).take(cap).collect();
    let via = seq_abs(cx, g, &back, &vi, "Topo.iter")?;
    check_set_once(cx, abs.n, &via, &want, "Topo.iter")?;
    // Topo::with_initials (initials with incoming edges are ignored; duplicates allowed): every node once, every
    // non-initial node only after all of its predecessors, every source among the initials is emitted
    if abs.n > 0 {
        let k = 1 + (abs.m() + abs.n) % 3;
        let initials: Vec<usize> = (0..k).map(|i| (i * 5 + abs.m()) % abs.n).chain(std::iter::once(abs.m() % abs.n)).collect();
        let init_ids: Vec<G::NodeId> = initials.iter().map(|&a| ids[a]).collect();
        let mut t = Topo::with_initials(g, init_ids);
        let mut seq = vec![];
        while let Some(y) = t.next(g) {
            seq.push(y);
            cx.ensure(seq.len() <= cap, "Topo::with_initials:overrun", || "emitted more nodes than the graph has".into())?;
        }
        let sa = seq_abs(cx, g, &back, &seq, "Topo::with_initials")?;
        let mut pos = vec![usize::MAX; abs.n];
        for (i, &v) in sa.iter().enumerate() {
            cx.ensure(pos[v] == usize::MAX, "Topo::with_initials:node-twice", || format!("node {} emitted twice in {:?} (initials {:?})", v, sa, initials))?;
            pos[v] = i;
        }
        let indeg0: Vec<bool> = (0..abs.n).map(|v| !abs.edges.iter().any(|e| e.1 == v)).collect();
        for &a in &initials {
            if indeg0[a] {
                cx.ensure(pos[a] != usize::MAX, "Topo::with_initials:source-initial-not-emitted", || format!("initial {} has no incoming edge but was not emitted", a))?;
            }
        }
        for v in 0..abs.n {
            if pos[v] != usize::MAX && !(initials.contains(&v) && indeg0[v]) {
                for &(u, w, _) in &abs.edges {
                    if w == v {
                        cx.ensure(pos[u] != usize::MAX && pos[u] < pos[v], "Topo::with_initials:predecessor-first", || {
                            format!("node {} emitted at {} but its predecessor {} at {:?} (initials {:?})", v, pos[v], u, pos[u], initials)
                        })?;
                    }
                }
            }
        }
    }
    Ok(())
}

// ------------------------------------------------------------------ depth_first_search trace

#[derive(Clone, Copy, Debug, PartialEq)]
pub enum Ev {
    Discover(usize, usize),
    Tree(usize, usize),
    Back(usize, usize),
    Cross(usize, usize),
    Finish(usize, usize),
}
#[derive(Clone, Copy, Debug, PartialEq)]
pub enum Resp {
    Continue,
    Prune,
    Break(u32),
    Error(u32),
}

/// Offline checker of one recorded event log.  `ended_by`: the response that must have ended
/// the stream (None = ran to completion).
pub fn check_trace(cx: &mut Cx, abs: &Abs, starts: &[usize], log: &[(Ev, Resp)], panicked_on_finish_prune: bool) -> R {
    let n = abs.n;
    let adj = abs.out_adj();
    let mut discovered = vec![false; n];
    let mut finished = vec![false; n];
    // stack entries: (node, edge events seen, targets seen, own events all Continue so far)
    let mut stack: Vec<(usize, usize, Vec<usize>, bool)> = vec![];
    let mut time = 0usize;
    let mut expect_discover: Option<usize> = None; // after TreeEdge answered Continue
    let mut forbid_discover: Option<usize> = None; // after TreeEdge answered Prune
    let mut expect_finish: Option<usize> = None; // after Discover answered Prune
    let mut any_prune = false;
    let mut ended = false;
    let mut next_start = 0usize;
    for (i, &(ev, resp)) in log.iter().enumerate() {
        let d = |s: &str| format!("event #{} {:?} -> {:?}: {}", i, ev, resp, s);
        cx.ensure(!ended, "dfs:event-after-break", || d("an event was delivered after Break/Err"))?;
        if let Some(v) = expect_discover.take() {
            cx.ensure(ev == Ev::Discover(v, time), "dfs:tree-edge-not-followed-by-discover", || d(&format!("expected Discover({}, {})", v, time)))?;
        }
        if let Some(v) = forbid_discover.take() {
            cx.ensure(!matches!(ev, Ev::Discover(x, _) if x == v), "dfs:pruned-tree-edge-descended", || d("TreeEdge answered Prune but its target was discovered next"))?;
        }
        if let Some(u) = expect_finish.take() {
            cx.ensure(matches!(ev, Ev::Finish(x, _) if x == u), "dfs:prune-at-discover-not-followed-by-finish", || d(&format!("expected Finish({})", u)))?;
        }
        match ev {
            Ev::Discover(u, t) => {
                cx.ensure(t == time, "dfs:time", || d(&format!("time should be {}", time)))?;
                time += 1;
                cx.ensure(!discovered[u], "dfs:discover-twice", || d("node discovered twice"))?;
                if stack.is_empty() {
                    // must be the next undiscovered start
                    while next_start < starts.len() && discovered[starts[next_start]] {
                        next_start += 1;
                    }
                    cx.ensure(next_start < starts.len() && starts[next_start] == u, "dfs:root-not-next-start", || d("root is not the next undiscovered start"))?;
                }
                discovered[u] = true;
                stack.push((u, 0, vec![], true));
                if resp == Resp::Prune {
                    expect_finish = Some(u);
                }
            }
            Ev::Tree(u, v) | Ev::Back(u, v) | Ev::Cross(u, v) => {
                cx.ensure(stack.last().map(|s| s.0) == Some(u), "dfs:edge-source-not-on-top", || d("edge source is not the node on top of the DFS stack"))?;
                match ev {
                    Ev::Tree(..) => cx.ensure(!discovered[v], "dfs:tree-edge-to-discovered", || d("TreeEdge to an already discovered node"))?,
                    Ev::Back(..) => cx.ensure(discovered[v] && !finished[v], "dfs:back-edge-class", || d("BackEdge target is not a discovered, unfinished node"))?,
                    _ => cx.ensure(finished[v], "dfs:cross-forward-class", || d("CrossForwardEdge target is not finished"))?,
                }
                let top = stack.last_mut().unwrap();
                top.1 += 1;
                top.2.push(v);
                if let Ev::Tree(..) = ev {
                    match resp {
                        Resp::Continue => expect_discover = Some(v),
                        Resp::Prune => forbid_discover = Some(v),
                        _ => {}
                    }
                }
            }
            Ev::Finish(u, t) => {
                cx.ensure(t == time, "dfs:time", || d(&format!("time should be {}", time)))?;
                time += 1;
                cx.ensure(stack.last().map(|s| s.0) == Some(u), "dfs:finish-not-nested", || d("Finish of a node that is not on top of the stack"))?;
                let (_, cnt, mut tg, clean) = stack.pop().unwrap();
                finished[u] = true;
                if clean {
                    let mut want: Vec<usize> = adj[u].iter().map(|x| x.0).collect();
                    want.sort_unstable();
                    tg.sort_unstable();
                    cx.ensure(cnt == want.len() && tg == want, "dfs:edges-before-finish", || {
                        d(&format!("node {} reported edge targets {:?} before Finish, its successors are {:?}", u, tg, want))
                    })?;
                }
            }
        }
        // bookkeeping of responses
        match resp {
            Resp::Continue => {}
            Resp::Prune => {
                any_prune = true;
                if let Some(top) = stack.last_mut() {
                    top.3 = false;
                }
                if let Ev::Finish(..) = ev {
                    cx.ensure(panicked_on_finish_prune, "dfs:prune-at-finish-did-not-panic", || d("Prune in response to Finish must panic (documented)"))?;
                    ended = true;
                }
            }
            Resp::Break(_) | Resp::Error(_) => ended = true,
        }
    }
    if !ended {
        cx.ensure(stack.is_empty(), "dfs:unfinished-at-end", || format!("stream ended with {} nodes still open", stack.len()))?;
        cx.ensure(expect_discover.is_none() && expect_finish.is_none(), "dfs:stream-truncated", || "stream ended while an event was still due".into())?;
        for v in 0..n {
            cx.ensure(discovered[v] == finished[v], "dfs:discovered-not-finished", || format!("node {} discovered but never finished", v))?;
        }
        let hops = if starts.is_empty() { vec![None; n] } else { hops_from(abs, starts) };
        for v in 0..n {
            if !any_prune {
                cx.ensure(discovered[v] == hops[v].is_some(), "dfs:discovered-set", || {
                    format!("node {}: discovered={}, reachable from starts={}", v, discovered[v], hops[v].is_some())
                })?;
            } else {
                cx.ensure(!discovered[v] || hops[v].is_some(), "dfs:discovered-unreachable", || format!("node {} discovered but unreachable", v))?;
            }
        }
    }
    Ok(())
}

#[derive(Clone, Copy, PartialEq, Debug)]
pub enum Flavor {
    Control,
    Unit,
    ResultControl,
}

/// Run depth_first_search with a scripted visitor, recording the event log.
pub fn run_dfs<G>(
    cx: &mut Cx,
    g: G,
    back: &Back,
    starts: &[G::NodeId],
    script: &[Resp],
    flavor: Flavor,
) -> R<(Vec<(Ev, Resp)>, Option<Resp>, bool)>
where
    G: IntoNeighbors + Visitable + NodeIndexable + Copy,
{
    use std::cell::RefCell;
    let log: RefCell<Vec<(Ev, Resp)>> = RefCell::new(vec![]);
    let bad: RefCell<bool> = RefCell::new(false);
    let conv = |e: DfsEvent<G::NodeId>| -> Ev {
        let a = |id: G::NodeId| match back.get(g, id) {
            Some(x) => x,
            None => {
                *bad.borrow_mut() = true;
                0
            }
        };
        match e {
            DfsEvent::Discover(u, t) => Ev::Discover(a(u), t.0),
            DfsEvent::TreeEdge(u, v) => Ev::Tree(a(u), a(v)),
            DfsEvent::BackEdge(u, v) => Ev::Back(a(u), a(v)),
            DfsEvent::CrossForwardEdge(u, v) => Ev::Cross(a(u), a(v)),
            DfsEvent::Finish(u, t) => Ev::Finish(a(u), t.0),
        }
    };
    let respond = |e: DfsEvent<G::NodeId>| -> Resp {
        let ev = conv(e);
        let i = log.borrow().len();
        let r = if i < script.len() { script[i] } else { Resp::Continue };
        log.borrow_mut().push((ev, r));
        r
    };
    let cap = 50_000usize;
    let result: Result<Option<Resp>, crate::cx::PanicInfo> = catch(|| match flavor {
        Flavor::Control => {
            let r = depth_first_search(g, starts.iter().copied(), |e| {
                if log.borrow().len() > cap {
                    return Control::Break(u32::MAX);
                }
                match respond(e) {
                    Resp::Continue | Resp::Error(_) => Control::Continue,
                    Resp::Prune => Control::Prune,
                    Resp::Break(x) => Control::Break(x),
                }
            });
            match r {
                Control::Break(x) => Some(Resp::Break(x)),
                Control::Continue => None,
                Control::Prune => Some(Resp::Prune),
            }
        }
        Flavor::Unit => {
            depth_first_search(g, starts.iter().copied(), |e| {
                if log.borrow().len() <= cap {
                    respond(e);
                }
            });
            None
        }
        Flavor::ResultControl => {
            let r: Result<Control<u32>, u32> = depth_first_search(g, starts.iter().copied(), |e| {
                if log.borrow().len() > cap {
                    return Err(u32::MAX);
                }
                match respond(e) {
                    Resp::Continue => Ok(Control::Continue),
                    Resp::Prune => Ok(Control::Prune),
                    Resp::Break(x) => Ok(Control::Break(x)),
                    Resp::Error(x) => Err(x),
                }
            });
            match r {
                Ok(Control::Break(x)) => Some(Resp::Break(x)),
                Ok(Control::Continue) => None,
                Ok(Control::Prune) => Some(Resp::Prune),
                Err(x) => Some(Resp::Error(x)),
            }
        }
    });
    cx.ensure(!*bad.borrow(), "dfs:alien-node", || "an event named a node that is not in the graph".into())?;
    let log = log.into_inner();
    cx.ensure(log.len() <= cap, "dfs:event-overrun", || "more than 50000 events on a tiny graph".into())?;
    match result {
        Ok(ret) => Ok((log, ret, false)),
        Err(p) => {
            // only the documented panic is acceptable
            let last_is_finish_prune = matches!(log.last(), Some((Ev::Finish(..), Resp::Prune)));
            cx.ensure(last_is_finish_prune && p.msg.contains("Pruning on the `DfsEvent::Finish`"), "dfs:unexpected-panic", || {
                format!("depth_first_search panicked: {}", p.short())
            })?;
            Ok((log, None, true))
        }
    }
}

pub fn check_dfs_events<G>(cx: &mut Cx, rng: &mut Rng, abs: &Abs, g: G, ids: &[G::NodeId]) -> R
where
    G: IntoNeighbors + Visitable + NodeIndexable + Copy,
{
    let back = Back::new(g, ids);
    // starts: 0-3 nodes (possibly repeated)
    let ns = if abs.n == 0 { 0 } else { rng.below(4) };
    let starts: Vec<usize> = (0..ns).map(|_| rng.below(abs.n)).collect();
    let start_ids: Vec<G::NodeId> = starts.iter().map(|&s| ids[s]).collect();
    for flavor in [Flavor::Control, Flavor::Unit, Flavor::ResultControl] {
        // script: mostly Continue, sprinkled Prune, sometimes a Break / Err
        let len = 4 * (abs.n + abs.m()) + 4;
        let mode = rng.below(4);
        let script: Vec<Resp> = (0..len)
            .map(|_| {
                if flavor == Flavor::Unit || mode == 0 {
                    Resp::Continue
                } else if rng.chance(1, 6) {
                    Resp::Prune
                } else if mode == 2 && rng.chance(1, 12) {
                    Resp::Break(rng.below(1000) as u32)
                } else if mode == 3 && flavor == Flavor::ResultControl && rng.chance(1, 12) {
                    Resp::Error(rng.below(1000) as u32)
                } else {
                    Resp::Continue
                }
            })
            .collect();
        let (log, ret, panicked) = run_dfs(cx, g, &back, &start_ids, &script, flavor)?;
        cx.log(|| format!("dfs starts {:?} flavor {:?}: log {:?} returned {:?}", starts, flavor, log, ret));
        cx.count(&format!("dfs-flavor:{:?}", flavor));
        cx.count_n("dfs-events", log.len() as u64);
        for (e, r) in &log {
            match (e, r) {
                (Ev::Cross(..), _) => cx.count("dfs-event:cross-forward"),
                (Ev::Back(..), _) => cx.count("dfs-event:back"),
                (_, Resp::Prune) => cx.count("dfs-response:prune"),
                (_, Resp::Break(_)) => cx.count("dfs-response:break"),
                (_, Resp::Error(_)) => cx.count("dfs-response:err"),
                _ => {}
            }
        }
        check_trace(cx, abs, &starts, &log, panicked)?;
        // the return value must be the Break/Err that ended the stream (or continuing)
        if !panicked {
            let want = match log.last() {
                Some((_, Resp::Break(x))) => Some(Resp::Break(*x)),
                Some((_, Resp::Error(x))) => Some(Resp::Error(*x)),
                _ => None,
            };
            cx.ensure(ret == want, "dfs:return-value", || format!("returned {:?}, the stream ended with {:?}", ret, want))?;
            // a Break / Err anywhere earlier must have ended the stream right there
            for (i, (_, r)) in log.iter().enumerate() {
                if matches!(r, Resp::Break(_) | Resp::Error(_)) {
                    cx.ensure(i + 1 == log.len(), "dfs:continued-after-break", || {
                        format!("event #{} answered {:?} but {} more events followed", i, r, log.len() - i - 1)
                    })?;
                }
            }
        }
    }
    Ok(())
}

// ------------------------------------------------------------------ adaptors

fn reversed_abs(abs: &Abs) -> Abs {
    let mut r = abs.clone();
    if abs.directed {
        for e in r.edges.iter_mut() {
            std::mem::swap(&mut e.0, &mut e.1);
        }
    }
    r
}

pub fn check_adaptors(cx: &mut Cx, rng: &mut Rng, abs: &Abs) -> R {
    use petgraph::graph::Graph;
    use petgraph::stable_graph::StableGraph;
    macro_rules! go {
        ($Ty:ty) => {{
            // a StableGraph with a hole, and a Graph
            let mut sg = StableGraph::<u32, i64, $Ty, u32>::with_capacity(0, 0);
            let junk = sg.add_node(9999);
            let ids: Vec<_> = (0..abs.n).map(|i| sg.add_node(i as u32)).collect();
            for &(u, v, w) in &abs.edges {
                sg.add_edge(ids[u], ids[v], w);
            }
            sg.remove_node(junk);
            let mut gg = Graph::<u32, i64, $Ty, u32>::with_capacity(0, 0);
            let gids: Vec<_> = (0..abs.n).map(|i| gg.add_node(i as u32)).collect();
            for &(u, v, w) in &abs.edges {
                gg.add_edge(gids[u], gids[v], w);
            }
            // Reversed
            let rabs = reversed_abs(abs);
            let rcl = closure(&rabs);
            cx.config = "Reversed<&StableGraph/holes>".into();
            let _ = check_walkers(cx, rng, &rabs, &rcl, Reversed(&sg), &ids);
            let _ = check_dfs_events(cx, rng, &rabs, Reversed(&sg), &ids);
            if abs.directed {
                let _ = check_topo(cx, &rabs, &rcl, Reversed(&sg), &ids);
            }
            cx.config = "Reversed<&Graph>".into();
            let _ = check_walkers(cx, rng, &rabs, &rcl, Reversed(&gg), &gids);
            // NodeFiltered by a random subset
            let keep: Vec<bool> = (0..abs.n).map(|_| rng.chance(2, 3)).collect();
            let mut fabs = abs.clone();
            fabs.edges.retain(|e| keep[e.0] && keep[e.1]);
            let fcl = closure(&fabs);
            if let Some(s) = (0..abs.n).find(|&v| keep[v]) {
                // all starts must be kept nodes: build a sub-correspondence by permuting so that rng picks kept ones
                let kept: Vec<usize> = (0..abs.n).filter(|&v| keep[v]).collect();
                let _ = s;
                let keepset: std::collections::HashSet<_> = kept.iter().map(|&v| ids[v]).collect();
                let nf = NodeFiltered(&sg, |n: petgraph::stable_graph::NodeIndex<u32>| keepset.contains(&n));
                // the filtered view over abs restricted to kept nodes, re-indexed
                let mut idx = vec![usize::MAX; abs.n];
                for (i, &v) in kept.iter().enumerate() {
                    idx[v] = i;
                }
                let mut sub = Abs::new(kept.len(), abs.directed);
                sub.family = "node-filtered";
                for &(u, v, w) in &fabs.edges {
                    sub.add(idx[u], idx[v], w);
                }
                let sub_ids: Vec<_> = kept.iter().map(|&v| ids[v]).collect();
                let scl = closure(&sub);
                cx.config = "NodeFiltered<&StableGraph/holes>".into();
                let _ = check_walkers(cx, rng, &sub, &scl, &nf, &sub_ids);
                let _ = check_dfs_events(cx, rng, &sub, &nf, &sub_ids);
                let _ = fcl;
            }
            // EdgeFiltered by weight parity
            let mut eabs = abs.clone();
            eabs.edges.retain(|e| e.2 % 2 == 0);
            let ecl = closure(&eabs);
            let ef = EdgeFiltered::from_fn(&gg, |e| *e.weight() % 2 == 0);
            cx.config = "EdgeFiltered<&Graph>".into();
            let _ = check_walkers(cx, rng, &eabs, &ecl, &ef, &gids);
            let _ = check_dfs_events(cx, rng, &eabs, &ef, &gids);
            if abs.directed {
                // UndirectedAdaptor: symmetrised graph
                let mut uabs = abs.clone();
                uabs.directed = false;
                let ucl = closure(&uabs);
                cx.config = "UndirectedAdaptor<&Graph>".into();
                let _ = check_walkers(cx, rng, &uabs, &ucl, UndirectedAdaptor(&gg), &gids);
            }
        }};
    }
    if abs.directed {
        go!(petgraph::Directed)
    } else {
        go!(petgraph::Undirected)
    }
    Ok(())
}

pub fn case(cx: &mut Cx, rng: &mut Rng) -> R {
    let nmax = if cx.small { 6 } else if rng.chance(1, if cx.thorough { 40 } else { 150 }) { 70 } else if rng.chance(1, 10) { 13 } else { 8 };
    let o = GenOpts::new(nmax);
    let abs = gen(rng, &o);
    cx.log(|| abs.describe());
    let cl = closure(&abs);
    cx.note_case(abs.hash(), abs.n >= 3 && abs.m() >= 2);
    cx.count(&format!("family:{}", abs.family));
    if abs.has_parallel() {
        cx.count("feature:parallel-edges");
    }
    with_enc!(one, &abs, rng, i64, |w| w,
        directed: [GraphU8, GraphShuf, GraphUsize, StableHoles, StableU8, GMap, Matrix, CsrT, ListT],
        undirected: [GraphU8, GraphShuf, GraphUsize, StableHoles, StableU8, GMap, Matrix, CsrT],
        |g, ids, tag| {
            cx.config = tag.name().to_string();
            cx.count(&format!("cell:walkers+dfs-events/{}", tag.name()));
            let _ = check_walkers(cx, rng, &abs, &cl, g, ids);
            let _ = check_dfs_events(cx, rng, &abs, g, ids);
        });
    if abs.directed {
        with_enc!(one, &abs, rng, i64, |w| w,
            directed: [GraphU8, GraphShuf, GraphUsize, StableHoles, StableU8, GMap, Matrix],
            undirected: [GraphU8],
            |g, ids, tag| {
                cx.config = tag.name().to_string();
                cx.count(&format!("cell:topo/{}", tag.name()));
                let _ = check_topo(cx, &abs, &cl, g, ids);
            });
    }
    if rng.chance(1, 3) {
        let _ = check_adaptors(cx, rng, &abs);
    }
    Ok(())
}
