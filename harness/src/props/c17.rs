//! C17 - serde round trips (JSON + bincode) are observationally exact, and hostile input yields
//! an error or a graph that satisfies every guarantee of its type under further use.

use crate::cx::{catch, Cx, R};
use crate::dsmodel::{Model, ME};
use crate::props::c01::sweep_graph;
use crate::props::c02::{self, SG};
use crate::rng::Rng;
use petgraph::graph::{EdgeIndex, Graph, IndexType, NodeIndex};
use petgraph::graphmap::GraphMap;
use petgraph::stable_graph::StableGraph;
use petgraph::visit::{EdgeRef, IntoEdgeReferences};
use petgraph::{Directed, EdgeType, Undirected};
use serde::de::DeserializeOwned;
use serde::Serialize;
use serde_json::{json, Value};

fn imax<Ix: IndexType>() -> usize {
    <Ix as IndexType>::max().index()
}

type GG<Ty, Ix> = Graph<u32, u32, Ty, Ix>;

/// a StableGraph reached by a short mutation history (vacancies likely), with its model
fn build_stable<Ty: EdgeType, Ix: IndexType>(rng: &mut Rng, vacancies: bool) -> (SG<Ty, Ix>, Model) {
    let mut g: SG<Ty, Ix> = StableGraph::with_capacity(0, 0);
    let mut m = Model::new(Ty::is_directed());
    let n = rng.urange(0, 9);
    for _ in 0..n {
        let w = m.fresh_w();
        let i = g.add_node(w).index();
        if i == m.nodes.len() { m.nodes.push(Some(w)); } else { m.nodes[i] = Some(w); }
    }
    let ops = rng.urange(0, 25);
    for _ in 0..ops {
        let live = m.live_nodes();
        match rng.weighted(&[50, 10, if vacancies { 12 } else { 0 }, if vacancies { 12 } else { 0 }]) {
            0 if !live.is_empty() => {
                let (a, b) = (live[rng.below(live.len())], live[rng.below(live.len())]);
                let w = m.fresh_w();
                let e = g.add_edge(NodeIndex::new(a), NodeIndex::new(b), w).index();
                m.set_edge(e, a, b, w);
            }
            1 => {
                let w = m.fresh_w();
                let i = g.add_node(w).index();
                if i == m.nodes.len() { m.nodes.push(Some(w)); } else { m.nodes[i] = Some(w); }
            }
            2 if !live.is_empty() => {
                let a = live[rng.below(live.len())];
                g.remove_node(NodeIndex::new(a));
                for e in m.incident(a) {
                    m.edges[e] = None;
                }
                m.nodes[a] = None;
            }
            3 => {
                let le = m.live_edges();
                if !le.is_empty() {
                    let e = le[rng.below(le.len())];
                    g.remove_edge(EdgeIndex::new(e));
                    m.edges[e] = None;
                }
            }
            _ => {}
        }
    }
    (g, m)
}

/// what a (de)serialised stable graph must look like: trailing vacancies are not part of the value
fn trimmed(m: &Model) -> Model {
    let mut t = m.clone();
    while matches!(t.nodes.last(), Some(None)) {
        t.nodes.pop();
    }
    while matches!(t.edges.last(), Some(None)) {
        t.edges.pop();
    }
    t
}

#[derive(Clone, Copy, Debug, PartialEq)]
enum Fmt {
    Json,
    Bincode,
}

fn ser<T: Serialize>(f: Fmt, v: &T) -> Result<Vec<u8>, String> {
    match f {
        Fmt::Json => serde_json::to_vec(v).map_err(|e| e.to_string()),
        Fmt::Bincode => bincode::serialize(v).map_err(|e| e.to_string()),
    }
}
fn de<T: DeserializeOwned>(f: Fmt, b: &[u8]) -> Result<T, String> {
    match f {
        Fmt::Json => serde_json::from_slice(b).map_err(|e| e.to_string()),
        Fmt::Bincode => {
            use bincode::Options;
            bincode::DefaultOptions::new().with_fixint_encoding().allow_trailing_bytes().with_limit(1 << 20).deserialize(b).map_err(|e| e.to_string())
        }
    }
}

/// deserialisation must never panic
fn de_nopanic<T: DeserializeOwned>(cx: &mut Cx, f: Fmt, b: &[u8], what: &str) -> R<Result<T, String>> {
    match catch(|| de::<T>(f, b)) {
        Ok(r) => Ok(r),
        Err(p) => {
            cx.violation(&format!("{}:deserialisation-panicked", what), format!("deserialising {} ({:?}) panicked: {}", what, f, p.short()));
            Err(crate::cx::Stop)
        }
    }
}

/// model read off a deserialised StableGraph (used for hostile input: only self-consistency is known)
fn model_of_stable<Ty: EdgeType, Ix: IndexType>(g: &SG<Ty, Ix>) -> Model {
    let (_, _, _, _, nodes, edges) = g.verif_raw();
    let mut m = Model::new(Ty::is_directed());
    for i in 0..nodes.len() {
        m.nodes.push(g.node_weight(NodeIndex::new(i)).copied());
    }
    for i in 0..edges.len() {
        let e = EdgeIndex::new(i);
        m.edges.push(match (g.edge_endpoints(e), g.edge_weight(e)) {
            (Some((a, b)), Some(&w)) => Some(ME { src: a.index(), dst: b.index(), w, seq: i as u64 + 1 }),
            _ => None,
        });
    }
    m.next_seq = edges.len() as u64 + 2;
    m.next_w = 1_000_000;
    m
}
fn model_of_graph<Ty: EdgeType, Ix: IndexType>(g: &GG<Ty, Ix>) -> Model {
    let mut m = Model::new(Ty::is_directed());
    m.nodes = g.node_weights().map(|&w| Some(w)).collect();
    m.edges = g.edge_references().enumerate().map(|(i, e)| Some(ME { src: e.source().index(), dst: e.target().index(), w: *e.weight(), seq: i as u64 + 1 })).collect();
    m.next_seq = m.edges.len() as u64 + 2;
    m.next_w = 1_000_000;
    m
}

/// "satisfies every consistency guarantee of its type under further use"
fn exercise_stable<Ty: EdgeType, Ix: IndexType>(cx: &mut Cx, rng: &mut Rng, g: &mut SG<Ty, Ix>, what: &str) -> R {
    let saved = cx.config.clone();
    cx.config = format!("{}/further-use", saved);
    let r = (|| -> R {
        let mut m = model_of_stable(g);
        // every edge endpoint must be a live node (otherwise the structure is corrupt)
        for e in m.live_edges() {
            let x = m.e(e).clone();
            cx.ensure(m.node_live(x.src) && m.node_live(x.dst), "edge-attached-to-absent-node", || format!("{}: edge {} connects {}->{} but an endpoint is not a live node", what, e, x.src, x.dst))?;
        }
        for i in m.live_nodes() {
            cx.ensure(i < imax::<Ix>() || imax::<Ix>() == usize::MAX, "live-node-with-the-end-index", || format!("{}: a live node has index {} (the reserved end marker)", what, i))?;
        }
        c02::full_sweep(cx, g, &m, 0)?;
        c02::boundary_probes(cx, g, &m)?;
        for step in 0..10 {
            let live = m.live_nodes();
            let room_n = m.nodes.iter().any(|x| x.is_none()) || m.nodes.len() < imax::<Ix>();
            let room_e = m.edges.iter().any(|x| x.is_none()) || m.edges.len() < imax::<Ix>();
            match rng.below(4) {
                0 if room_n => {
                    let w = m.fresh_w();
                    let i = g.add_node(w).index();
                    c02::adopt_new_node(cx, &mut m, i, w, "add_node")?;
                }
                1 if !live.is_empty() && room_e => {
                    let (a, b) = (live[rng.below(live.len())], live[rng.below(live.len())]);
                    let w = m.fresh_w();
                    let e = g.add_edge(NodeIndex::new(a), NodeIndex::new(b), w).index();
                    c02::adopt_new_edge(cx, &mut m, e, a, b, w, "add_edge")?;
                }
                2 if !live.is_empty() => {
                    let a = live[rng.below(live.len())];
                    let r = g.remove_node(NodeIndex::new(a));
                    cx.ensure(r == m.nodes[a], "remove_node-result", || format!("remove_node({}) = {:?}", a, r))?;
                    for e in m.incident(a) {
                        m.edges[e] = None;
                    }
                    m.nodes[a] = None;
                }
                _ => {
                    // occupy a vacancy that is not the head of the free list, through extend_with_edges
                    let vac: Vec<usize> = (0..m.nodes.len()).filter(|&i| !m.node_live(i)).collect();
                    if let (Some(&v), true, true) = (vac.first(), !live.is_empty(), room_e) {
                        let a = live[0];
                        let w = m.fresh_w();
                        g.extend_with_edges([(NodeIndex::<Ix>::new(v), NodeIndex::<Ix>::new(a), w)]);
                        m.nodes[v] = Some(0);
                        let idx = g.edge_references().find(|e| *e.weight() == w).map(|e| e.id().index());
                        match idx {
                            Some(i) => c02::adopt_new_edge(cx, &mut m, i, v, a, w, "extend_with_edges")?,
                            None => cx.ensure(false, "extend_with_edges-edge-missing", || "edge not found".into())?,
                        }
                    }
                }
            }
            c02::full_sweep(cx, g, &m, step)?;
        }
        c02::boundary_probes(cx, g, &m)
    })();
    cx.config = saved;
    r
}

fn exercise_graph<Ty: EdgeType, Ix: IndexType>(cx: &mut Cx, rng: &mut Rng, g: &mut GG<Ty, Ix>, what: &str) -> R {
    let saved = cx.config.clone();
    cx.config = format!("{}/further-use", saved);
    let r = (|| -> R {
        let mut m = model_of_graph(g);
        for e in m.live_edges() {
            let x = m.e(e).clone();
            cx.ensure(x.src < m.nodes.len() && x.dst < m.nodes.len(), "edge-attached-to-absent-node", || format!("{}: edge {} connects {}->{}", what, e, x.src, x.dst))?;
        }
        cx.ensure(m.nodes.len() <= imax::<Ix>() && m.edges.len() <= imax::<Ix>(), "more-elements-than-the-index-type-admits", || format!("{}: {} nodes / {} edges with index maximum {}", what, m.nodes.len(), m.edges.len(), imax::<Ix>()))?;
        sweep_graph(cx, g, &m, false, 0)?;
        for step in 0..8 {
            let n = m.nodes.len();
            match rng.below(3) {
                0 if n < imax::<Ix>() => {
                    let w = m.fresh_w();
                    let i = g.add_node(w);
                    cx.ensure(i.index() == n, "add_node-index", || format!("add_node = {}", i.index()))?;
                    m.nodes.push(Some(w));
                }
                1 if n > 0 && m.edges.len() < imax::<Ix>() => {
                    let (a, b) = (rng.below(n), rng.below(n));
                    let w = m.fresh_w();
                    let e = g.add_edge(NodeIndex::new(a), NodeIndex::new(b), w);
                    cx.ensure(e.index() == m.edges.len(), "add_edge-index", || format!("add_edge = {}", e.index()))?;
                    m.push_edge(a, b, w);
                }
                _ if !m.edges.is_empty() => {
                    let e = rng.below(m.edges.len());
                    let r = g.remove_edge(EdgeIndex::new(e));
                    cx.ensure(r == Some(m.e(e).w), "remove_edge-result", || format!("remove_edge({}) = {:?}", e, r))?;
                    m.edges.swap_remove(e);
                }
                _ => {}
            }
            sweep_graph(cx, g, &m, false, step)?;
        }
        Ok(())
    })();
    cx.config = saved;
    r
}

// ------------------------------------------------------------------ round trips

fn roundtrip<Ty: EdgeType, Ix: IndexType + Serialize + DeserializeOwned>(cx: &mut Cx, rng: &mut Rng, tyname: &str, ixname: &str) -> R {
    let f = if rng.coin() { Fmt::Json } else { Fmt::Bincode };
    let vac = rng.chance(2, 3);
    let (g, m) = build_stable::<Ty, Ix>(rng, vac);
    let t = trimmed(&m);
    cx.config = format!("StableGraph<{},{}>/{:?}", tyname, ixname, f);
    cx.log(|| format!("round trip of {}", m.describe()));
    let has_vac = t.nodes.iter().any(|x| x.is_none()) || t.edges.iter().any(|x| x.is_none());
    cx.count(if has_vac { "roundtrip:stable-with-vacancies" } else { "roundtrip:stable-vacancy-free" });
    let bytes = match ser(f, &g) {
        Ok(b) => b,
        Err(e) => {
            return cx.ensure(false, "serialize-failed", || format!("serialising failed: {}", e));
        }
    };
    // StableGraph -> StableGraph: same indices, weights, direction, vacancies up to the bounds
    let back: Result<SG<Ty, Ix>, String> = de_nopanic(cx, f, &bytes, "StableGraph")?;
    match back {
        Ok(mut h) => {
            c02::full_sweep(cx, &h, &t, 0)?;
            exercise_stable(cx, rng, &mut h, "round-tripped StableGraph")?;
        }
        Err(e) => cx.ensure(false, "roundtrip:own-output-rejected", || format!("deserialising the serialised StableGraph failed: {}", e))?,
    }
    // StableGraph stream -> Graph: only when vacancy-free, then same indices
    cx.config = format!("StableGraph<{},{}>->Graph/{:?}", tyname, ixname, f);
    let as_graph: Result<GG<Ty, Ix>, String> = de_nopanic(cx, f, &bytes, "Graph")?;
    match as_graph {
        Ok(mut h) => {
            if !has_vac {
                sweep_graph(cx, &h, &t, false, 0)?;
            }
            exercise_graph(cx, rng, &mut h, "Graph loaded from a StableGraph stream")?;
            cx.ensure(!has_vac, "stable-stream-with-vacancies-loaded-as-Graph", || "a stream with interior vacancies was accepted as a Graph".into())?;
        }
        Err(e) => cx.ensure(has_vac, "vacancy-free-stable-stream-rejected-as-Graph", || format!("vacancy-free StableGraph stream rejected as Graph: {}", e))?,
    }
    // wrong edge property must be an error
    cx.config = format!("StableGraph<{},{}>/{:?}/wrong-edge-property", tyname, ixname, f);
    if Ty::is_directed() {
        let r: Result<SG<Undirected, Ix>, String> = de_nopanic(cx, f, &bytes, "StableGraph<other-edge-type>")?;
        cx.ensure(r.is_err(), "edge-property-mismatch-accepted", || "a directed stream loaded as an undirected graph".into())?;
    } else {
        let r: Result<SG<Directed, Ix>, String> = de_nopanic(cx, f, &bytes, "StableGraph<other-edge-type>")?;
        cx.ensure(r.is_err(), "edge-property-mismatch-accepted", || "an undirected stream loaded as a directed graph".into())?;
    }
    // Graph -> Graph and Graph -> StableGraph (compact copy of the same content)
    let gg: GG<Ty, Ix> = Graph::from(g.clone());
    let gm = model_of_graph(&gg);
    cx.config = format!("Graph<{},{}>/{:?}", tyname, ixname, f);
    let bytes = ser(f, &gg).unwrap();
    let r: Result<GG<Ty, Ix>, String> = de_nopanic(cx, f, &bytes, "Graph")?;
    match r {
        Ok(mut h) => {
            sweep_graph(cx, &h, &gm, false, 0)?;
            exercise_graph(cx, rng, &mut h, "round-tripped Graph")?;
        }
        Err(e) => cx.ensure(false, "roundtrip:own-output-rejected", || format!("deserialising the serialised Graph failed: {}", e))?,
    }
    cx.config = format!("Graph<{},{}>->StableGraph/{:?}", tyname, ixname, f);
    let r: Result<SG<Ty, Ix>, String> = de_nopanic(cx, f, &bytes, "StableGraph")?;
    match r {
        Ok(mut h) => {
            c02::full_sweep(cx, &h, &gm, 0)?;
            exercise_stable(cx, rng, &mut h, "StableGraph loaded from a Graph stream")?;
        }
        Err(e) => cx.ensure(false, "graph-stream-rejected-as-StableGraph", || format!("{}", e))?,
    }
    cx.note_case(m.structure_hash() ^ (f as u64), m.node_count() >= 2 && m.edge_count() >= 1);
    Ok(())
}

/// other weight types: observational identity through the Debug rendering (indices, weights, edges)
fn roundtrip_other_weights(cx: &mut Cx, rng: &mut Rng) -> R {
    let f = if rng.coin() { Fmt::Json } else { Fmt::Bincode };
    cx.config = format!("other-weights/{:?}", f);
    let n = rng.urange(0, 6);
    macro_rules! go {
        ($N:ty, $E:ty, $mkn:expr, $mke:expr, $name:expr) => {{
            let mut g = StableGraph::<$N, $E, Directed, u16>::with_capacity(0, 0);
            let ids: Vec<_> = (0..n).map(|i| g.add_node($mkn(i))).collect();
            for k in 0..rng.below(10) {
                if n > 0 {
                    g.add_edge(ids[rng.below(n)], ids[rng.below(n)], $mke(k));
                }
            }
            if n > 2 && rng.coin() {
                g.remove_node(ids[1]);
            }
            let bytes = ser(f, &g).unwrap();
            let back: Result<StableGraph<$N, $E, Directed, u16>, String> = de_nopanic(cx, f, &bytes, $name)?;
            match back {
                Ok(h) => {
                    // indices, weights, endpoints, direction, counts (the free lists are not part of the value)
                    let render = |x: &StableGraph<$N, $E, Directed, u16>| {
                        let ns: Vec<String> = x.node_indices().map(|i| format!("{}:{:?}", i.index(), x[i])).collect();
                        let es: Vec<String> = x.edge_references().map(|e| format!("{}:{}->{}:{:?}", e.id().index(), e.source().index(), e.target().index(), e.weight())).collect();
                        format!("nodes {:?} edges {:?} counts {}/{} directed {}", ns, es, x.node_count(), x.edge_count(), x.is_directed())
                    };
                    cx.ensure(render(&h) == render(&g), &format!("roundtrip-differs[{}]", $name), || format!("before {}\nafter  {}", render(&g), render(&h)))?
                }
                Err(e) => cx.ensure(false, &format!("roundtrip:own-output-rejected[{}]", $name), || e)?,
            }
        }};
    }
    match rng.below(3) {
        0 => go!(String, String, |i: usize| format!("n\"{}\\", i), |k: usize| format!("e{}\n", k), "String"),
        1 => go!((), (), |_i: usize| (), |_k: usize| (), "unit"),
        _ => go!(Option<i8>, Option<i8>, |i: usize| if i % 2 == 0 { None } else { Some(i as i8 - 3) }, |k: usize| if k % 3 == 0 { None } else { Some(-(k as i8)) }, "Option<i8>"),
    }
    // GraphMap goes through Graph
    let mut gm = GraphMap::<i32, u32, Undirected>::new();
    for _ in 0..rng.below(8) {
        gm.add_edge(rng.range(-3, 3) as i32, rng.range(-3, 3) as i32, rng.below(100) as u32);
    }
    gm.add_node(77);
    let bytes = ser(f, &gm).unwrap();
    let back: Result<GraphMap<i32, u32, Undirected>, String> = de_nopanic(cx, f, &bytes, "GraphMap")?;
    match back {
        Ok(h) => {
            let a: Vec<i32> = gm.nodes().collect();
            let b: Vec<i32> = h.nodes().collect();
            let ea: Vec<(i32, i32, u32)> = gm.all_edges().map(|(x, y, w)| (x, y, *w)).collect();
            let eb: Vec<(i32, i32, u32)> = h.all_edges().map(|(x, y, w)| (x, y, *w)).collect();
            cx.ensure(a == b && ea == eb, "roundtrip-differs[GraphMap]", || format!("nodes {:?} vs {:?}; edges {:?} vs {:?}", a, b, ea, eb))?;
        }
        Err(e) => cx.ensure(false, "roundtrip:own-output-rejected[GraphMap]", || e)?,
    }
    Ok(())
}

/// a graph that exactly fills its index type must round-trip
fn roundtrip_full_u8(cx: &mut Cx, rng: &mut Rng) -> R {
    let f = if rng.coin() { Fmt::Json } else { Fmt::Bincode };
    let n = 253 + rng.below(3); // 253, 254, 255 nodes
    cx.config = format!("Graph<Directed,u8>/{:?}/{}-nodes", f, n);
    let mut g = Graph::<u32, u32, Directed, u8>::with_capacity(0, 0);
    for i in 0..n {
        g.add_node(i as u32);
    }
    let me = 250 + rng.below(6);
    for k in 0..me {
        g.add_edge(NodeIndex::new(rng.below(n)), NodeIndex::new(rng.below(n)), k as u32);
    }
    let bytes = ser(f, &g).unwrap();
    let r: Result<GG<Directed, u8>, String> = de_nopanic(cx, f, &bytes, "Graph<u8>")?;
    let full = n == 255 || me == 255;
    cx.count(if full { "roundtrip:u8-exactly-full" } else { "roundtrip:u8-nearly-full" });
    match r {
        Ok(h) => {
            let m = model_of_graph(&g);
            sweep_graph(cx, &h, &m, false, 1)?;
        }
        Err(e) => {
            cx.config = "Graph<u8>".into();
            cx.ensure(false, if full { "roundtrip:graph-that-exactly-fills-the-index-type-rejected" } else { "roundtrip:own-output-rejected" }, || format!("{} nodes / {} edges: {}", n, me, e))?
        }
    }
    Ok(())
}

// ------------------------------------------------------------------ hostile input

fn stream_json<Ty: EdgeType, Ix: IndexType + Serialize>(g: &SG<Ty, Ix>) -> Value {
    serde_json::to_value(g).unwrap()
}

/// structural edits of a valid JSON stream
fn mutate(rng: &mut Rng, v: &mut Value, log: &mut Vec<String>) {
    let nn = v["nodes"].as_array().map_or(0, |a| a.len());
    let nh = v["node_holes"].as_array().map_or(0, |a| a.len());
    let ne = v["edges"].as_array().map_or(0, |a| a.len());
    let total = nn + nh;
    let holes: Vec<u64> = v["node_holes"].as_array().map_or(vec![], |a| a.iter().filter_map(|x| x.as_u64()).collect());
    let k = rng.urange(1, 3);
    for round in 0..k {
        // after the first edit the shape may be anything: only shape-independent edits afterwards
        let arr = |v: &Value, f: &str| v.get(f).and_then(|x| x.as_array()).map_or(0, |a| a.len());
        let (nn, nh, ne) = if round == 0 { (nn, nh, ne) } else { (arr(v, "nodes"), arr(v, "node_holes"), arr(v, "edges")) };
        let total = nn + nh;
        if !v.is_object() {
            return;
        }
        match rng.below(14) {
            0 if ne > 0 => {
                // endpoint := a declared hole / the bound / beyond
                let i = rng.below(ne);
                let t = if !holes.is_empty() && rng.coin() { holes[rng.below(holes.len())] } else { (total + rng.below(3)) as u64 };
                let side = rng.below(2);
                if let Some(e) = v["edges"][i].as_array_mut().filter(|e| e.len() > side) {
                    e[side] = json!(t);
                    log.push(format!("edge {} endpoint {} := {}", i, side, t));
                }
            }
            1 => {
                let h = rng.below(total + 3) as u64;
                if let Some(a) = v.get_mut("node_holes").and_then(|x| x.as_array_mut()) {
                    a.push(json!(h));
                }
                log.push(format!("push hole {}", h));
            }
            2 if nh > 0 => {
                let a = v["node_holes"].as_array_mut().unwrap();
                let i = rng.below(a.len());
                let d = a[i].clone();
                a.insert(i, d);
                log.push("duplicate a hole".into());
            }
            3 if nh > 1 => {
                v["node_holes"].as_array_mut().unwrap().reverse();
                log.push("reverse holes".into());
            }
            4 => {
                let mut hs = vec![];
                for _ in 0..nn + 2 {
                    hs.push(json!(rng.below(total + 4)));
                }
                v["node_holes"] = json!(hs);
                log.push("more holes than nodes, unsorted".into());
            }
            5 if ne > 0 => {
                let i = rng.below(ne);
                v["edges"][i] = Value::Null;
                log.push(format!("edge {} := null", i));
            }
            6 => {
                let p = if v["edge_property"] == json!("directed") { "undirected" } else { "directed" };
                v["edge_property"] = json!(p);
                log.push("flip edge_property".into());
            }
            7 if nn > 0 => {
                let a = v["nodes"].as_array_mut().unwrap();
                let cut = rng.below(a.len());
                a.truncate(cut);
                log.push(format!("truncate nodes to {}", cut));
            }
            8 if ne > 0 => {
                let a = v["edges"].as_array_mut().unwrap();
                let cut = rng.below(a.len());
                a.truncate(cut);
                log.push(format!("truncate edges to {}", cut));
            }
            9 => {
                let which = ["nodes", "node_holes", "edges", "edge_property"][rng.below(4)];
                v[which] = [json!(7), json!("x"), json!({}), Value::Null, json!([[1]])][rng.below(5)].clone();
                log.push(format!("{} := wrong type", which));
            }
            10 if ne > 0 => {
                let i = rng.below(ne);
                v["edges"][i] = [json!([0]), json!([0, 0]), json!([0, 0, 0, 0]), json!(["a", 0, 1]), json!([-1, 0, 1])][rng.below(5)].clone();
                log.push(format!("edge {} := malformed tuple", i));
            }
            11 => {
                v["node_holes"] = json!([0, 0]);
                log.push("holes := [0,0]".into());
            }
            12 => {
                let h1 = total as u64 + 1;
                v["node_holes"] = json!([h1, h1 + 1]);
                log.push(format!("holes := [{}, {}] (beyond the nodes available)", h1, h1 + 1));
            }
            _ => {
                if let Some(o) = v.as_object_mut() {
                    let which = ["nodes", "node_holes", "edges", "edge_property"][rng.below(4)];
                    o.remove(which);
                    log.push(format!("remove field {}", which));
                }
            }
        }
    }
}

fn hostile_json<Ty: EdgeType, Ix: IndexType + Serialize + DeserializeOwned>(cx: &mut Cx, rng: &mut Rng, tyname: &str, ixname: &str) -> R {
    let (g, m) = build_stable::<Ty, Ix>(rng, true);
    let mut v = stream_json(&g);
    let mut log = vec![];
    mutate(rng, &mut v, &mut log);
    cx.log(|| format!("hostile JSON from {} with edits {:?}: {}", m.describe(), log, v));
    let bytes = serde_json::to_vec(&v).unwrap();
    cx.config = format!("hostile-json->StableGraph<{},{}>", tyname, ixname);
    let r: Result<SG<Ty, Ix>, String> = de_nopanic(cx, Fmt::Json, &bytes, "StableGraph")?;
    match r {
        Ok(mut h) => {
            cx.count("hostile:accepted-as-StableGraph");
            exercise_stable(cx, rng, &mut h, "StableGraph from mutated JSON")?;
        }
        Err(_) => cx.count("hostile:rejected-as-StableGraph"),
    }
    cx.config = format!("hostile-json->Graph<{},{}>", tyname, ixname);
    let r: Result<GG<Ty, Ix>, String> = de_nopanic(cx, Fmt::Json, &bytes, "Graph")?;
    match r {
        Ok(mut h) => {
            cx.count("hostile:accepted-as-Graph");
            exercise_graph(cx, rng, &mut h, "Graph from mutated JSON")?;
        }
        Err(_) => cx.count("hostile:rejected-as-Graph"),
    }
    cx.note_case(crate::rng::hash_str(&v.to_string()), log.len() >= 1 && m.node_count() >= 2);
    Ok(())
}

/// more elements than a u8 index admits, incl. through holes
fn hostile_u8_sizes(cx: &mut Cx, rng: &mut Rng) -> R {
    let nodes = 245 + rng.below(14); // 245..258
    let nholes = rng.below(14);
    let total = nodes + nholes;
    let mut hole_pos: Vec<usize> = vec![];
    while hole_pos.len() < nholes {
        let p = rng.below(total);
        if !hole_pos.contains(&p) {
            hole_pos.push(p);
        }
    }
    hole_pos.sort_unstable();
    let ne = [0usize, 3, 254, 255, 256, 257][rng.below(6)];
    let live: Vec<usize> = (0..total).filter(|i| !hole_pos.contains(i)).collect();
    let edges: Vec<Value> = (0..ne).map(|k| if rng.chance(1, 20) { Value::Null } else { json!([live[rng.below(live.len())].min(255), live[rng.below(live.len())].min(255), k]) }).collect();
    let v = json!({"nodes": (0..nodes).collect::<Vec<usize>>(), "node_holes": hole_pos, "edge_property": "directed", "edges": edges});
    cx.log(|| format!("u8 stream: {} nodes + {} holes = {} slots, {} edges", nodes, nholes, total, ne));
    let bytes = serde_json::to_vec(&v).unwrap();
    cx.config = "hostile-sizes->StableGraph<Directed,u8>".into();
    let r: Result<SG<Directed, u8>, String> = de_nopanic(cx, Fmt::Json, &bytes, "StableGraph<u8>")?;
    cx.count(&format!("u8-sizes:slots{}255", if total > 255 { ">" } else { "<=" }));
    if let Ok(mut h) = r {
        cx.ensure(total <= 255 && ne <= 255, "more-elements-than-the-index-type-admits", || format!("{} node slots / {} edge slots accepted for u8", total, ne))?;
        exercise_stable(cx, rng, &mut h, "u8 StableGraph from a large stream")?;
    }
    if nholes == 0 {
        cx.config = "hostile-sizes->Graph<Directed,u8>".into();
        let r: Result<GG<Directed, u8>, String> = de_nopanic(cx, Fmt::Json, &bytes, "Graph<u8>")?;
        if let Ok(mut h) = r {
            exercise_graph(cx, rng, &mut h, "u8 Graph from a large stream")?;
        }
    }
    cx.note_case(crate::rng::mix(nodes as u64, (nholes * 1000 + ne) as u64), true);
    Ok(())
}

fn hostile_bincode<Ty: EdgeType, Ix: IndexType + Serialize + DeserializeOwned>(cx: &mut Cx, rng: &mut Rng, tyname: &str, ixname: &str) -> R {
    let (g, m) = build_stable::<Ty, Ix>(rng, true);
    let mut bytes = bincode::serialize(&g).unwrap();
    let mut what = vec![];
    for _ in 0..rng.urange(1, 3) {
        if bytes.is_empty() {
            break;
        }
        match rng.below(5) {
            0 => {
                let i = rng.below(bytes.len());
                bytes[i] ^= 1 << rng.below(8);
                what.push(format!("flip a bit of byte {}", i));
            }
            1 => {
                let cut = rng.below(bytes.len());
                bytes.truncate(cut);
                what.push(format!("truncate to {}", cut));
            }
            2 => {
                // small edit of a (likely) length prefix / index
                let i = rng.below(bytes.len());
                bytes[i] = bytes[i].wrapping_add(1);
                what.push(format!("byte {} += 1", i));
            }
            3 => {
                let (h, _) = build_stable::<Ty, Ix>(rng, true);
                let other = bincode::serialize(&h).unwrap();
                let cut = rng.below(bytes.len());
                let cut2 = rng.below(other.len().max(1)).min(other.len());
                bytes.truncate(cut);
                bytes.extend_from_slice(&other[cut2..]);
                what.push("splice with another stream".into());
            }
            _ => {
                let i = rng.below(bytes.len());
                bytes[i] = [0u8, 1, 0xff, 0x7f][rng.below(4)];
                what.push(format!("byte {} := extreme", i));
            }
        }
    }
    cx.log(|| format!("hostile bincode from {} with edits {:?}", m.describe(), what));
    cx.config = format!("hostile-bincode->StableGraph<{},{}>", tyname, ixname);
    let r: Result<SG<Ty, Ix>, String> = de_nopanic(cx, Fmt::Bincode, &bytes, "StableGraph")?;
    if let Ok(mut h) = r {
        cx.count("hostile-bincode:accepted-as-StableGraph");
        exercise_stable(cx, rng, &mut h, "StableGraph from mutated bincode")?;
    }
    cx.config = format!("hostile-bincode->Graph<{},{}>", tyname, ixname);
    let r: Result<GG<Ty, Ix>, String> = de_nopanic(cx, Fmt::Bincode, &bytes, "Graph")?;
    if let Ok(mut h) = r {
        cx.count("hostile-bincode:accepted-as-Graph");
        exercise_graph(cx, rng, &mut h, "Graph from mutated bincode")?;
    }
    let mut hh = crate::cx::H::new();
    for b in &bytes {
        hh.add(*b as u64);
    }
    cx.note_case(hh.0, m.node_count() >= 2);
    Ok(())
}

pub fn case(cx: &mut Cx, rng: &mut Rng) -> R {
    macro_rules! widths {
        ($f:ident, $Ty:ty, $tn:expr) => {
            match rng.below(4) {
                0 => $f::<$Ty, u8>(cx, rng, $tn, "u8"),
                1 => $f::<$Ty, u16>(cx, rng, $tn, "u16"),
                2 => $f::<$Ty, u32>(cx, rng, $tn, "u32"),
                _ => $f::<$Ty, usize>(cx, rng, $tn, "usize"),
            }
        };
    }
    let directed = rng.coin();
    match rng.weighted(&[30, 6, 2, 36, 6, 20]) {
        0 => if directed { widths!(roundtrip, Directed, "Directed") } else { widths!(roundtrip, Undirected, "Undirected") },
        1 => roundtrip_other_weights(cx, rng),
        2 => roundtrip_full_u8(cx, rng),
        3 => if directed { widths!(hostile_json, Directed, "Directed") } else { widths!(hostile_json, Undirected, "Undirected") },
        4 => hostile_u8_sizes(cx, rng),
        _ => if directed { widths!(hostile_bincode, Directed, "Directed") } else { widths!(hostile_bincode, Undirected, "Undirected") },
    }
}
