//! C15 - greedy_matching / maximum_matching (validity, accessor consistency, optimality by
//! bitmask DP) and ford_fulkerson (feasibility, conservation, min-cut certificate).

use crate::abs::{gen, Abs, GenOpts};
use crate::corr::Back;
use crate::cx::{Cx, R};
use crate::num::Num;
use crate::rng::Rng;
use petgraph::algo::{self, Matching};
use petgraph::data::DataMap;
use petgraph::visit::*;
use std::hash::Hash;

/// maximum matching size of the undirected view (loops ignored), n <= 20
pub fn max_matching_ref(abs: &Abs) -> usize {
    let n = abs.n;
    assert!(n <= 20);
    let mut adjm = vec![0u32; n];
    for &(u, v, _) in &abs.edges {
        if u != v {
            adjm[u] |= 1 << v;
            adjm[v] |= 1 << u;
        }
    }
    let mut memo = vec![u8::MAX; 1usize << n];
    fn go(mask: u32, adjm: &[u32], memo: &mut [u8]) -> u8 {
        if mask == 0 {
            return 0;
        }
        if memo[mask as usize] != u8::MAX {
            return memo[mask as usize];
        }
        let v = mask.trailing_zeros() as usize;
        let rest = mask & !(1 << v);
        let mut best = go(rest, adjm, memo);
        let mut cand = adjm[v] & rest;
        while cand != 0 {
            let u = cand.trailing_zeros();
            cand &= cand - 1;
            let r = 1 + go(rest & !(1 << u), adjm, memo);
            if r > best {
                best = r;
            }
        }
        memo[mask as usize] = best;
        best
    }
    go(((1u64 << n) - 1) as u32, &adjm, &mut memo) as usize
}

/// maximum matching size of the undirected view (loops ignored) for any n: textbook Edmonds blossom algorithm
/// (BFS forest, blossom contraction through `base`), O(V^3).  Cross-checked against the subset DP on every small case.
pub fn max_matching_blossom(abs: &Abs) -> usize {
    let n = abs.n;
    let mut adj = vec![vec![]; n];
    for &(u, v, _) in &abs.edges {
        if u != v {
            adj[u].push(v);
            adj[v].push(u);
        }
    }
    const NIL: usize = usize::MAX;
    let mut mate = vec![NIL; n];
    let mut p = vec![NIL; n];
    let mut base: Vec<usize> = (0..n).collect();
    fn lca(mut a: usize, mut b: usize, base: &[usize], mate: &[usize], p: &[usize]) -> usize {
        let mut seen = vec![false; base.len()];
        loop {
            a = base[a];
            seen[a] = true;
            if mate[a] == NIL {
                break;
            }
            a = p[mate[a]];
        }
        loop {
            b = base[b];
            if seen[b] {
                return b;
            }
            b = p[mate[b]];
        }
    }
    fn mark_path(mut v: usize, b: usize, mut x: usize, base: &[usize], mate: &[usize], p: &mut [usize], blossom: &mut [bool]) {
        while base[v] != b {
            blossom[base[v]] = true;
            blossom[base[mate[v]]] = true;
            p[v] = x;
            x = mate[v];
            v = p[mate[v]];
        }
    }
    let mut size = 0;
    for root in 0..n {
        if mate[root] != NIL {
            continue;
        }
        // find an augmenting path from root
        let mut used = vec![false; n];
        for i in 0..n {
            p[i] = NIL;
            base[i] = i;
        }
        used[root] = true;
        let mut q = std::collections::VecDeque::new();
        q.push_back(root);
        let mut end = NIL;
        'bfs: while let Some(v) = q.pop_front() {
            for k in 0..adj[v].len() {
                let to = adj[v][k];
                if base[v] == base[to] || mate[v] == to {
                    continue;
                }
                if to == root || (mate[to] != NIL && p[mate[to]] != NIL) {
                    let cur = lca(v, to, &base, &mate, &p);
                    let mut blossom = vec![false; n];
                    mark_path(v, cur, to, &base, &mate, &mut p, &mut blossom);
                    mark_path(to, cur, v, &base, &mate, &mut p, &mut blossom);
                    for i in 0..n {
                        if blossom[base[i]] {
                            base[i] = cur;
                            if !used[i] {
                                used[i] = true;
                                q.push_back(i);
                            }
                        }
                    }
                } else if p[to] == NIL {
                    p[to] = v;
                    if mate[to] == NIL {
                        end = to;
                        break 'bfs;
                    }
                    used[mate[to]] = true;
                    q.push_back(mate[to]);
                }
            }
        }
        if end != NIL {
            size += 1;
            let mut u = end;
            while u != NIL {
                let pv = p[u];
                let ppv = mate[pv];
                mate[u] = pv;
                mate[pv] = u;
                u = ppv;
            }
        }
    }
    size
}

/// validity + accessor consistency; returns the matching size
pub fn check_matching_valid<G>(cx: &mut Cx, abs: &Abs, g: G, ids: &[G::NodeId], m: &Matching<G>, what: &str) -> R<usize>
where
    G: NodeIndexable + NodeCount + Copy,
    G::NodeId: Eq + Hash,
{
    let back = Back::new(g, ids);
    let mut mate: Vec<Option<usize>> = vec![None; abs.n];
    for v in 0..abs.n {
        if let Some(x) = m.mate(ids[v]) {
            mate[v] = Some(back.abs(cx, g, x, what)?);
        }
    }
    let mut pairs = 0;
    for v in 0..abs.n {
        if let Some(u) = mate[v] {
            cx.ensure(mate[u] == Some(v), &format!("{}:mate-not-symmetric", what), || format!("mate({})={} but mate({})={:?}", v, u, u, mate[u]))?;
            cx.ensure(u != v, &format!("{}:self-mate", what), || format!("node {} matched with itself", v))?;
            let joined = abs.edges.iter().any(|e| (e.0 == u && e.1 == v) || (e.0 == v && e.1 == u));
            cx.ensure(joined, &format!("{}:pair-not-an-edge", what), || format!("matched pair ({},{}) is not joined by an edge", v, u))?;
            if v < u {
                pairs += 1;
            }
        }
        cx.ensure(m.contains_node(ids[v]) == mate[v].is_some(), &format!("{}:contains_node", what), || format!("contains_node({}) disagrees with mate", v))?;
    }
    cx.ensure(m.len() == pairs, &format!("{}:len", what), || format!("len() = {}, mate describes {} pairs", m.len(), pairs))?;
    cx.ensure(m.is_empty() == (pairs == 0), &format!("{}:is_empty", what), || "is_empty disagrees".into())?;
    cx.ensure(m.is_perfect() == (2 * pairs == abs.n), &format!("{}:is_perfect", what), || format!("is_perfect() = {}, {} pairs on {} nodes", m.is_perfect(), pairs, abs.n))?;
    // edges(): each pair once
    let mut seen = vec![false; abs.n];
    let mut cnt = 0;
    for (k, (a, b)) in m.edges().enumerate() {
        cx.ensure(k <= abs.n, &format!("{}:edges-overrun", what), || "edges() does not end".into())?;
        let (a, b) = (back.abs(cx, g, a, what)?, back.abs(cx, g, b, what)?);
        cx.ensure(mate[a] == Some(b) && !seen[a] && !seen[b], &format!("{}:edges()", what), || format!("edges() yields ({},{}) inconsistent with mate / twice", a, b))?;
        seen[a] = true;
        seen[b] = true;
        cnt += 1;
    }
    cx.ensure(cnt == pairs, &format!("{}:edges()-count", what), || format!("edges() yields {} pairs, mate {}", cnt, pairs))?;
    let mut nseen = vec![false; abs.n];
    for (k, x) in m.nodes().enumerate() {
        cx.ensure(k <= abs.n, &format!("{}:nodes-overrun", what), || "nodes() does not end".into())?;
        let a = back.abs(cx, g, x, what)?;
        cx.ensure(!nseen[a] && mate[a].is_some(), &format!("{}:nodes()", what), || format!("nodes() yields {} twice or unmatched", a))?;
        nseen[a] = true;
    }
    cx.ensure(nseen.iter().filter(|&&b| b).count() == 2 * pairs, &format!("{}:nodes()-count", what), || "nodes() misses matched nodes".into())?;
    for a in 0..abs.n {
        for b in 0..abs.n {
            cx.ensure(m.contains_edge(ids[a], ids[b]) == (mate[a] == Some(b)), &format!("{}:contains_edge", what), || format!("contains_edge({},{}) disagrees with mate", a, b))?;
        }
    }
    Ok(pairs)
}

pub fn check_matchings<G>(cx: &mut Cx, abs: &Abs, g: G, ids: &[G::NodeId], enc_name: &str) -> R
where
    G: Visitable + NodeIndexable + IntoNodeIdentifiers + IntoEdges + IntoNeighbors + NodeCount + Copy,
    G::NodeId: Eq + Hash,
    G::EdgeId: Eq + Hash,
{
    let gm = algo::greedy_matching(g);
    let _ = check_matching_valid(cx, abs, g, ids, &gm, "greedy_matching");
    let mm = algo::maximum_matching(g);
    let size = check_matching_valid(cx, abs, g, ids, &mm, "maximum_matching")?;
    let opt = if abs.n <= 16 {
        let a = max_matching_ref(abs);
        let b = max_matching_blossom(abs);
        if a != b {
            cx.harness_errors.push(format!("case {}: the two matching oracles disagree ({} vs {}) on {}", cx.case, a, b, abs.describe()));
        }
        a
    } else {
        cx.count("matching:judged-by-the-blossom-oracle(n>16)");
        max_matching_blossom(abs)
    };
    if abs.directed {
        // optimality on directed storage is judged under its own signature (documented:
        // "treated as if undirected"; the code follows outgoing edges only)
        let saved = std::mem::replace(&mut cx.config, "any-encoding/directed-storage".to_string());
        let r = cx.ensure(size == opt, "maximum_matching:not-maximum", || {
            format!("{}: matching of size {} on directed storage, maximum (direction ignored) is {}", enc_name, size, opt)
        });
        cx.config = saved;
        r
    } else {
        cx.ensure(size == opt, "maximum_matching:not-maximum", || format!("matching of size {}, maximum is {}", size, opt))
    }
}

pub fn check_flow<G>(cx: &mut Cx, rng: &mut Rng, abs: &Abs, g: G, ids: &[G::NodeId]) -> R
where
    G: NodeCount + EdgeCount + IntoEdgesDirected + IntoEdgeReferences + EdgeIndexable + NodeIndexable + DataMap + Visitable + Copy,
    G::EdgeWeight: std::ops::Sub<Output = G::EdgeWeight> + algo::PositiveMeasure + Num,
{
    if abs.n < 2 {
        return Ok(());
    }
    let back = Back::new(g, ids);
    let s = rng.below(abs.n);
    let mut t = rng.below(abs.n - 1);
    if t >= s {
        t += 1;
    }
    let (value, flows) = algo::ford_fulkerson(g, ids[s], ids[t]);
    let value = value.to_i64();
    // (u, v, cap, flow) per edge, via the graph's own edge references
    let mut es: Vec<(usize, usize, i64, i64)> = vec![];
    for e in g.edge_references() {
        let i = EdgeIndexable::to_index(&g, e.id());
        cx.ensure(i < flows.len(), "ford_fulkerson:flow-vector-too-short", || format!("edge index {} but {} flows", i, flows.len()))?;
        es.push((back.abs(cx, g, e.source(), "ford_fulkerson")?, back.abs(cx, g, e.target(), "ford_fulkerson")?, e.weight().to_i64(), flows[i].to_i64()));
    }
    // the edges the library showed must be the graph's edges (capacities)
    let mut a: Vec<(usize, usize, i64)> = es.iter().map(|e| (e.0, e.1, e.2)).collect();
    let mut b: Vec<(usize, usize, i64)> = abs.edges.clone();
    a.sort();
    b.sort();
    cx.ensure(a == b, "ford_fulkerson:edges-differ", || "edge_references does not show the network".into())?;
    let mut net = vec![0i64; abs.n];
    for &(u, v, c, f) in &es {
        cx.ensure(0 <= f && f <= c, "ford_fulkerson:capacity", || format!("edge {}->{}: flow {} capacity {}", u, v, f, c))?;
        net[u] -= f;
        net[v] += f;
    }
    for v in 0..abs.n {
        if v != s && v != t {
            cx.ensure(net[v] == 0, "ford_fulkerson:conservation", || format!("s={} t={}: node {} has net inflow {}", s, t, v, net[v]))?;
        }
    }
    cx.ensure(-net[s] == value && net[t] == value, "ford_fulkerson:value", || {
        format!("s={} t={}: reported value {}, net out of s {}, net into t {}", s, t, value, -net[s], net[t])
    })?;
    // certificate: residual reachability from s defines a cut of capacity == value
    let mut reach = vec![false; abs.n];
    reach[s] = true;
    let mut changed = true;
    while changed {
        changed = false;
        for &(u, v, c, f) in &es {
            if reach[u] && !reach[v] && f < c {
                reach[v] = true;
                changed = true;
            }
            if reach[v] && !reach[u] && f > 0 {
                reach[u] = true;
                changed = true;
            }
        }
    }
    cx.ensure(!reach[t], "ford_fulkerson:augmenting-path-left", || {
        format!("s={} t={}: value {} but the residual graph of the returned flow still has an s-t path (flows {:?})", s, t, value, es)
    })?;
    let cut: i64 = es.iter().filter(|e| reach[e.0] && !reach[e.1]).map(|e| e.2).sum();
    cx.ensure(cut == value, "ford_fulkerson:min-cut", || format!("s={} t={}: value {} but the cut it defines has capacity {}", s, t, value, cut))
}

/// networks in which the BFS-shortest augmenting path must later be partly cancelled
fn flow_cancel_family(rng: &mut Rng) -> Abs {
    // s=0, a=1, b=2, t=3; long detours s ~> b and a ~> t
    let l1 = rng.urange(2, 3);
    let l2 = rng.urange(2, 3);
    let n = 4 + l1 + l2;
    let mut g = Abs::new(n, true);
    g.family = "flow_cancel";
    let c = rng.range(1, 4);
    g.add(0, 1, c + rng.range(0, 3));
    g.add(1, 2, c);
    g.add(2, 3, c + rng.range(0, 3));
    let mut prev = 0;
    for i in 0..l1 {
        let x = 4 + i;
        g.add(prev, x, c + rng.range(0, 2));
        prev = x;
    }
    g.add(prev, 2, c + rng.range(0, 2));
    let mut prev = 1;
    for i in 0..l2 {
        let x = 4 + l1 + i;
        g.add(prev, x, c + rng.range(0, 2));
        prev = x;
    }
    g.add(prev, 3, c + rng.range(0, 2));
    // relabel + noise edges with small capacity
    for _ in 0..rng.below(3) {
        let (u, v) = (rng.below(n), rng.below(n));
        g.add(u, v, rng.range(0, 1));
    }
    let p = rng.perm(n);
    let mut r = g.relabel(&p);
    if rng.coin() {
        let mut e = std::mem::take(&mut r.edges);
        rng.shuffle(&mut e);
        r.edges = e;
    }
    r
}

pub fn case(cx: &mut Cx, rng: &mut Rng) -> R {
    let nmax = if cx.small { 6 } else if rng.chance(1, 8) { 14 } else { 9 };
    // ---- matching (a share of larger graphs: stacked blossoms need room)
    let nmatch = if !cx.small && rng.chance(1, if cx.thorough { 12 } else { 30 }) { *rng.pick(&[24, 40, 70]) } else { nmax };
    let mut o = GenOpts::new(nmatch);
    if rng.chance(3, 4) {
        o.directed = Some(false);
    }
    let fam = *rng.pick(&["gnp", "gnp", "oddcycle_tails", "oddcycle_tails", "petersen", "blocks", "tree", "cycle", "bipartite", "multi", "union", "grid", "star", "complete", "empty"]);
    let abs = crate::abs::gen_family(rng, &o, fam);
    cx.log(|| format!("matching input: {}", abs.describe()));
    cx.count(&format!("matching-family:{}", abs.family));
    with_enc!(one, &abs, rng, i64, |w| w,
        directed: [GraphU8, GraphShuf, GraphUsize, StableHoles, StableU8, GMap, Matrix, CsrT, ListT],
        undirected: [GraphU8, GraphShuf, GraphUsize, StableHoles, StableU8, GMap, Matrix, CsrT],
        |g, ids, tag| {
            cx.config = tag.name().to_string();
            cx.count(&format!("cell:matching/{}{}", tag.name(), if abs.directed { "/directed" } else { "" }));
            let _ = check_matchings(cx, &abs, g, ids, tag.name());
        });
    // ---- flow
    let nflow = if !cx.small && rng.chance(1, if cx.thorough { 12 } else { 30 }) { 30 } else { nmax.min(10) };
    let net = if rng.chance(1, 3) {
        flow_cancel_family(rng)
    } else {
        gen(rng, &GenOpts::new(nflow).directed(true).weights(0, 6))
    };
    cx.log(|| format!("flow input: {}", net.describe()));
    cx.count(&format!("flow-family:{}", net.family));
    cx.note_case(abs.hash() ^ net.hash().rotate_left(21), abs.n >= 3 && abs.m() >= 2 && net.n >= 3 && net.m() >= 2);
    macro_rules! flow_on {
        ($W:ty) => {
            with_enc!(one, &net, rng, $W, |w| <$W as Num>::from_i64(w),
                directed: [GraphU8, GraphShuf, GraphUsize, StableHoles, StableU8],
                undirected: [GraphU8],
                |g, ids, tag| {
                    cx.config = format!("{}/{}", tag.name(), <$W as Num>::NAME);
                    cx.count(&format!("cell:ford_fulkerson/{}/{}", tag.name(), <$W as Num>::NAME));
                    let _ = check_flow(cx, rng, &net, g, ids);
                })
        };
    }
    match rng.below(3) {
        0 => flow_on!(u32),
        1 => flow_on!(u64),
        _ => flow_on!(f64),
    }
    // capacities at the maximum of the capacity type (the algorithm uses max() as its "no bottleneck yet" value): an
    // arborescence, so that any two nodes are joined by at most one path and no flow value can exceed the type
    if rng.chance(1, 10) {
        let n = rng.urange(2, 7);
        let mut t = Abs::new(n, true);
        t.family = "max_capacity_tree";
        for v in 1..n {
            let c = *rng.pick(&[u32::MAX as i64, u32::MAX as i64, u32::MAX as i64 - 1, 3]);
            t.add(rng.below(v), v, c);
        }
        let p = rng.perm(n);
        let net = t.relabel(&p);
        cx.log(|| format!("flow input (capacities at u32::MAX): {}", net.describe()));
        cx.count("flow-family:max_capacity_tree");
        with_enc!(one, &net, rng, u32, |w| <u32 as Num>::from_i64(w),
            directed: [GraphU8, GraphShuf, GraphUsize, StableHoles, StableU8],
            undirected: [GraphU8],
            |g, ids, tag| {
                cx.config = format!("{}/u32", tag.name());
                for _ in 0..3 {
                    let _ = check_flow(cx, rng, &net, g, ids);
                }
            });
    }
    Ok(())
}
