//! C18 - graph6 against an independent byte-level encoder/decoder written from the format
//! text; Dot output parsed by a small DOT tokenizer/parser and compared with the graph.

use crate::abs::{gen_family, Abs, GenOpts};
use crate::corr::Back;
use crate::cx::{catch, Cx, R};
use crate::rng::Rng;
use petgraph::csr::Csr;
use petgraph::dot::{Config, Dot, RankDir};
use petgraph::graph::{Graph, NodeIndex};
use petgraph::graph6::{FromGraph6, ToGraph6};
use petgraph::graphmap::GraphMap;
use petgraph::matrix_graph::MatrixGraph;
use petgraph::stable_graph::StableGraph;
use petgraph::visit::*;
use petgraph::{Directed, EdgeType, Undirected};

// ------------------------------------------------------------------ independent graph6 codec

/// adjacency given as a symmetric boolean matrix in node-iteration order
pub fn g6_encode(n: usize, adj: &dyn Fn(usize, usize) -> bool) -> String {
    let mut out: Vec<u8> = vec![];
    if n <= 62 {
        out.push(n as u8 + 63);
    } else {
        assert!(n <= 258047);
        out.push(126);
        out.push(((n >> 12) & 63) as u8 + 63);
        out.push(((n >> 6) & 63) as u8 + 63);
        out.push((n & 63) as u8 + 63);
    }
    let mut acc = 0u8;
    let mut k = 0;
    for j in 1..n {
        for i in 0..j {
            acc = (acc << 1) | adj(i, j) as u8;
            k += 1;
            if k == 6 {
                out.push(acc + 63);
                acc = 0;
                k = 0;
            }
        }
    }
    if k > 0 {
        acc <<= 6 - k;
        out.push(acc + 63);
    }
    String::from_utf8(out).unwrap()
}

pub fn g6_decode(s: &str) -> (usize, Vec<(usize, usize)>) {
    let b = s.as_bytes();
    let (n, mut p) = if b[0] == 126 {
        ((((b[1] - 63) as usize) << 12) | (((b[2] - 63) as usize) << 6) | (b[3] - 63) as usize, 4)
    } else {
        ((b[0] - 63) as usize, 1)
    };
    let mut edges = vec![];
    let mut bit = 0;
    for j in 1..n {
        for i in 0..j {
            let v = (b[p] - 63) >> (5 - bit) & 1;
            if v == 1 {
                edges.push((i, j));
            }
            bit += 1;
            if bit == 6 {
                bit = 0;
                p += 1;
            }
        }
    }
    (n, edges)
}

/// encode through the library on `g`, compare with the independent encoder on the adjacency in
/// node_identifiers order
fn check_encode<G>(cx: &mut Cx, abs: &Abs, g: G, ids: &[G::NodeId], s: String) -> R
where
    G: IntoNodeIdentifiers + NodeIndexable + Copy,
{
    let back = Back::new(g, ids);
    let mut order = vec![];
    for id in g.node_identifiers() {
        order.push(back.abs(cx, g, id, "node_identifiers")?);
    }
    let want = g6_encode(order.len(), &|i, j| abs.has_edge(order[i], order[j]));
    cx.ensure(s == want, "graph6_string", || {
        format!("graph6_string() = {:?}, the format says {:?} (n = {}, node order {:?})", s, want, order.len(), order)
    })?;
    // and it decodes (independently) to g's adjacency
    let (n2, es) = g6_decode(&s);
    let mut got: Vec<(usize, usize)> = es.iter().map(|&(i, j)| { let (a, b) = (order[i], order[j]); (a.min(b), a.max(b)) }).collect();
    got.sort_unstable();
    let mut wantes: Vec<(usize, usize)> = abs.edges.iter().map(|e| (e.0.min(e.1), e.0.max(e.1))).collect();
    wantes.sort_unstable();
    cx.ensure(n2 == abs.n && got == wantes, "graph6_string:decodes-to-another-graph", || format!("decodes to n={} edges {:?}, graph has n={} edges {:?}", n2, got, abs.n, wantes))
}

fn check_decode(cx: &mut Cx, abs: &Abs, s: &str) -> R {
    // valid string (from the independent encoder, identity node order) -> five graph types
    let mut want: Vec<(usize, usize)> = abs.edges.iter().map(|e| (e.0.min(e.1), e.0.max(e.1))).collect();
    want.sort_unstable();
    macro_rules! verify {
        ($name:expr, $n:expr, $edges:expr) => {{
            let mut got: Vec<(usize, usize)> = $edges;
            got.sort_unstable();
            cx.ensure($n == abs.n && got == want, &format!("from_graph6_string[{}]", $name), || {
                format!("{}: decoded n={} edges {:?}, expected n={} edges {:?}", $name, $n, got, abs.n, want)
            })?;
        }};
    }
    let r = catch(|| Graph::<(), (), Undirected, u32>::from_graph6_string(s.to_string()));
    match r {
        Ok(g) => verify!("Graph", g.node_count(), g.edge_references().map(|e| (e.source().index().min(e.target().index()), e.source().index().max(e.target().index()))).collect()),
        Err(p) => cx.ensure(false, "from_graph6_string[Graph]:panicked", || p.short())?,
    }
    let r = catch(|| StableGraph::<(), (), Undirected, u16>::from_graph6_string(s.to_string()));
    match r {
        Ok(g) => verify!("StableGraph", g.node_count(), g.edge_references().map(|e| (e.source().index().min(e.target().index()), e.source().index().max(e.target().index()))).collect()),
        Err(p) => cx.ensure(false, "from_graph6_string[StableGraph]:panicked", || p.short())?,
    }
    let r = catch(|| GraphMap::<u32, (), Undirected>::from_graph6_string(s.to_string()));
    match r {
        Ok(g) => verify!("GraphMap", g.node_count(), g.all_edges().map(|(a, b, _)| ((a as usize).min(b as usize), (a as usize).max(b as usize))).collect()),
        Err(p) => cx.ensure(false, "from_graph6_string[GraphMap]:panicked", || p.short())?,
    }
    let r = catch(|| MatrixGraph::<(), (), std::collections::hash_map::RandomState, Undirected, Option<()>, u16>::from_graph6_string(s.to_string()));
    match r {
        Ok(g) => verify!("MatrixGraph", g.node_count(), g.edge_references().map(|e| (e.source().index().min(e.target().index()), e.source().index().max(e.target().index()))).collect()),
        Err(p) => cx.ensure(false, "from_graph6_string[MatrixGraph]:panicked", || p.short())?,
    }
    let r = catch(|| Csr::<(), (), Undirected, u32>::from_graph6_string(s.to_string()));
    match r {
        Ok(g) => verify!("Csr", g.node_count(), g.edge_references().map(|e| ((e.source() as usize).min(e.target() as usize), (e.source() as usize).max(e.target() as usize))).collect()),
        Err(p) => cx.ensure(false, "from_graph6_string[Csr]:panicked", || p.short())?,
    }
    Ok(())
}

fn graph6_case(cx: &mut Cx, rng: &mut Rng) -> R {
    // n: 0..=70 with the header switch always in play; a few larger in thorough runs
    let n = match rng.below(10) {
        0 => 61 + rng.below(4),
        1 => rng.below(4),
        2 if cx.thorough && !cx.small => 100 + rng.below(220),
        _ => rng.below(if cx.small { 9 } else { 71 }),
    };
    let fam = *rng.pick(&["gnp", "gnp", "gnp", "tree", "cycle", "star", "complete", "empty", "bipartite", "grid"]);
    let mut abs = gen_family(rng, &GenOpts::new(n).nmin(n).directed(false).simple(true).loops(false), fam);
    abs.n = n; // families may shrink: keep isolated nodes
    abs.edges.retain(|e| e.0 < n && e.1 < n);
    cx.log(|| format!("graph6 input n={} m={} family={}", abs.n, abs.m(), abs.family));
    cx.count(&format!("graph6:n{}", if n <= 62 { "<=62" } else { ">=63" }));
    cx.note_case(abs.hash(), abs.n >= 3 && abs.m() >= 2);
    // encode on each undirected graph type
    cx.config = "Graph<u32>/shuffled-history".into();
    let e = crate::enc::graph_shuffled::<Undirected, u32, i64>(&abs, rng, |w| w);
    let s = e.g.graph6_string();
    check_encode(cx, &abs, &e.g, &e.ids, s)?;
    cx.config = "StableGraph<u32>/holes".into();
    let e = crate::enc::stable_holes::<Undirected, u32, i64>(&abs, rng, |w| w);
    let s = e.g.graph6_string();
    check_encode(cx, &abs, &e.g, &e.ids, s)?;
    cx.config = "GraphMap<i32>".into();
    let e = crate::enc::graphmap::<Undirected, i64>(&abs, rng, |w| w);
    let s = e.g.graph6_string();
    check_encode(cx, &abs, &e.g, &e.ids, s)?;
    cx.config = "MatrixGraph<u16>/removed-ids".into();
    let e = crate::enc::matrix::<Undirected, i64>(&abs, rng, |w| w);
    let s = e.g.graph6_string();
    check_encode(cx, &abs, &e.g, &e.ids, s)?;
    cx.config = "Csr<u32>".into();
    let e = crate::enc::csr::<Undirected, i64>(&abs, rng, |w| w);
    let s = e.g.graph6_string();
    check_encode(cx, &abs, &e.g, &e.ids, s)?;
    // decode a valid string written by the independent encoder
    cx.config = "decode".into();
    let valid = g6_encode(abs.n, &|i, j| abs.has_edge(i, j));
    check_decode(cx, &abs, &valid)?;
    Ok(())
}

// ------------------------------------------------------------------ DOT tokenizer / parser

#[derive(Debug, Clone, PartialEq)]
enum Tok {
    Id(String),
    Str(String), // raw content between the quotes (escapes not yet resolved)
    LBrace,
    RBrace,
    LBrack,
    RBrack,
    Eq,
    Arrow,
    Line,
}

fn tokenize(s: &str) -> Result<Vec<Tok>, String> {
    let cs: Vec<char> = s.chars().collect();
    let mut i = 0;
    let mut out = vec![];
    while i < cs.len() {
        let c = cs[i];
        match c {
            ' ' | '\t' | '\n' | '\r' => i += 1,
            '{' => { out.push(Tok::LBrace); i += 1 }
            '}' => { out.push(Tok::RBrace); i += 1 }
            '[' => { out.push(Tok::LBrack); i += 1 }
            ']' => { out.push(Tok::RBrack); i += 1 }
            '=' => { out.push(Tok::Eq); i += 1 }
            '-' => {
                if i + 1 < cs.len() && cs[i + 1] == '>' { out.push(Tok::Arrow); i += 2 }
                else if i + 1 < cs.len() && cs[i + 1] == '-' { out.push(Tok::Line); i += 2 }
                else { return Err(format!("stray '-' at {}", i)) }
            }
            '"' => {
                let mut j = i + 1;
                let mut raw = String::new();
                loop {
                    if j >= cs.len() { return Err("unterminated string".into()) }
                    if cs[j] == '\\' {
                        if j + 1 >= cs.len() { return Err("dangling backslash".into()) }
                        raw.push(cs[j]);
                        raw.push(cs[j + 1]);
                        j += 2;
                    } else if cs[j] == '"' {
                        break;
                    } else {
                        raw.push(cs[j]);
                        j += 1;
                    }
                }
                out.push(Tok::Str(raw));
                i = j + 1;
            }
            c if c.is_ascii_alphanumeric() || c == '_' => {
                let mut j = i;
                let mut id = String::new();
                while j < cs.len() && (cs[j].is_ascii_alphanumeric() || cs[j] == '_') {
                    id.push(cs[j]);
                    j += 1;
                }
                out.push(Tok::Id(id));
                i = j;
            }
            other => return Err(format!("unexpected character {:?} outside a string at {}", other, i)),
        }
    }
    Ok(out)
}

fn unescape(raw: &str) -> Result<String, String> {
    let mut out = String::new();
    let mut it = raw.chars();
    while let Some(c) = it.next() {
        if c == '\\' {
            match it.next() {
                Some('"') => out.push('"'),
                Some('\\') => out.push('\\'),
                Some('l') => out.push('\n'),
                Some(x) => return Err(format!("unknown escape \\{}", x)),
                None => return Err("dangling backslash".into()),
            }
        } else {
            out.push(c);
        }
    }
    Ok(out)
}

#[derive(Debug, Default)]
struct Parsed {
    header: Option<String>,
    rankdir: Option<String>,
    nodes: Vec<(usize, Option<String>)>,
    edges: Vec<(usize, bool, usize, Option<String>)>, // (a, arrow?, b, label)
    closed: bool,
}

fn parse(toks: &[Tok], content_only: bool) -> Result<Parsed, String> {
    let mut p = Parsed::default();
    let mut i = 0;
    let id = |t: Option<&Tok>| -> Option<String> { if let Some(Tok::Id(s)) = t { Some(s.clone()) } else { None } };
    if !content_only {
        let h = id(toks.get(0)).ok_or("missing header keyword")?;
        if toks.get(1) != Some(&Tok::LBrace) {
            return Err("missing '{'".into());
        }
        p.header = Some(h);
        i = 2;
    }
    let attrs = |i: &mut usize| -> Result<Option<String>, String> {
        if toks.get(*i) != Some(&Tok::LBrack) {
            return Err(format!("expected '[' at token {}", *i));
        }
        *i += 1;
        let mut label = None;
        if toks.get(*i) == Some(&Tok::Id("label".into())) {
            if toks.get(*i + 1) != Some(&Tok::Eq) {
                return Err("expected '=' after label".into());
            }
            match toks.get(*i + 2) {
                Some(Tok::Str(s)) => label = Some(unescape(s)?),
                _ => return Err("expected a string after label =".into()),
            }
            *i += 3;
        }
        if toks.get(*i) != Some(&Tok::RBrack) {
            return Err(format!("expected ']' at token {} (found {:?})", *i, toks.get(*i)));
        }
        *i += 1;
        Ok(label)
    };
    while i < toks.len() {
        match &toks[i] {
            Tok::RBrace => {
                if content_only {
                    return Err("unexpected '}' in content-only output".into());
                }
                p.closed = true;
                i += 1;
                if i != toks.len() {
                    return Err("tokens after the closing '}'".into());
                }
            }
            Tok::Id(s) if s == "rankdir" => {
                if toks.get(i + 1) != Some(&Tok::Eq) {
                    return Err("rankdir without '='".into());
                }
                match toks.get(i + 2) {
                    Some(Tok::Str(v)) => p.rankdir = Some(v.clone()),
                    _ => return Err("rankdir without value".into()),
                }
                i += 3;
            }
            Tok::Id(s) => {
                let a: usize = s.parse().map_err(|_| format!("statement starts with non-numeric id {:?}", s))?;
                i += 1;
                match toks.get(i) {
                    Some(Tok::Arrow) | Some(Tok::Line) => {
                        let arrow = toks[i] == Tok::Arrow;
                        let b: usize = id(toks.get(i + 1)).ok_or("edge without target")?.parse().map_err(|_| "non-numeric edge target".to_string())?;
                        i += 2;
                        let l = attrs(&mut i)?;
                        p.edges.push((a, arrow, b, l));
                    }
                    _ => {
                        let l = attrs(&mut i)?;
                        p.nodes.push((a, l));
                    }
                }
            }
            t => return Err(format!("unexpected token {:?} at statement start", t)),
        }
    }
    if !content_only && !p.closed {
        return Err("missing closing '}'".into());
    }
    Ok(p)
}

const ALPHABET: &[&str] = &["\"", "\\", "\n", "\r", "]", "[", ";", "{", "}", "-", ">", "=", ",", " ", "\\l", "é", "𝄞", "a", "0", "label", "->", "\\\"", "\" ]\n    9 [ label = \"x", "\\\\"];

fn evil(rng: &mut Rng) -> String {
    let k = rng.below(6);
    let mut s = String::new();
    for _ in 0..k {
        let piece: &str = ALPHABET[rng.below(ALPHABET.len())];
        s.push_str(piece);
    }
    if rng.chance(1, 8) {
        s.push('\\'); // trailing backslash
    }
    s
}

#[derive(Clone, Copy, Debug, PartialEq)]
enum Style {
    Display,
    Debug,
    AltDisplay,
    AltDebug,
}

fn expected_label(w: &str, st: Style) -> String {
    match st {
        Style::Display => w.to_string(),
        Style::Debug => format!("{:?}", w),
        Style::AltDisplay => format!("{:#}\n", w),
        Style::AltDebug => format!("{:#?}\n", w),
    }
}

fn config_of(bits: usize, rank: usize) -> (Vec<Config>, [bool; 5], Option<&'static str>) {
    let mut v = vec![];
    let b = [bits & 1 != 0, bits & 2 != 0, bits & 4 != 0, bits & 8 != 0, bits & 16 != 0];
    if b[0] { v.push(Config::NodeIndexLabel) }
    if b[1] { v.push(Config::EdgeIndexLabel) }
    if b[2] { v.push(Config::EdgeNoLabel) }
    if b[3] { v.push(Config::NodeNoLabel) }
    if b[4] { v.push(Config::GraphContentOnly) }
    let r = match rank {
        1 => { v.push(Config::RankDir(RankDir::TB)); Some("TB") }
        2 => { v.push(Config::RankDir(RankDir::BT)); Some("BT") }
        3 => { v.push(Config::RankDir(RankDir::LR)); Some("LR") }
        4 => { v.push(Config::RankDir(RankDir::RL)); Some("RL") }
        _ => None,
    };
    (v, b, r)
}

/// check one rendering against the graph: `nodes` = (to_index, weight string), `edges` = (src index, dst index, weight string)
fn check_dot(cx: &mut Cx, text: &str, directed: bool, nodes: &[(usize, String)], edges: &[(usize, usize, String)], b: [bool; 5], rank: Option<&str>, st: Style) -> R {
    let toks = match tokenize(text) {
        Ok(t) => t,
        Err(e) => return cx.ensure(false, "Dot:not-tokenizable", || format!("{} in {:?}", e, text)),
    };
    let p = match parse(&toks, b[4]) {
        Ok(p) => p,
        Err(e) => return cx.ensure(false, "Dot:not-well-formed", || format!("{} in {:?}", e, text)),
    };
    if !b[4] {
        let want = if directed { "digraph" } else { "graph" };
        cx.ensure(p.header.as_deref() == Some(want), "Dot:header-keyword", || format!("header {:?}, graph directed={}", p.header, directed))?;
    }
    cx.ensure(p.rankdir.as_deref() == rank, "Dot:rankdir", || format!("rankdir {:?}, configured {:?}", p.rankdir, rank))?;
    // node statements are exactly the node indices (in order), nothing injected
    cx.ensure(p.nodes.len() == nodes.len() && p.edges.len() == edges.len(), "Dot:statement-count", || {
        format!("{} node and {} edge statements for {} nodes and {} edges: {:?}", p.nodes.len(), p.edges.len(), nodes.len(), edges.len(), text)
    })?;
    for (k, (idx, label)) in p.nodes.iter().enumerate() {
        cx.ensure(*idx == nodes[k].0, "Dot:node-statement-id", || format!("node statement #{} has id {}, the node's index is {} in {:?}", k, idx, nodes[k].0, text))?;
        let want = if b[3] { None } else if b[0] { Some(format!("{}", nodes[k].0)) } else { Some(expected_label(&nodes[k].1, st)) };
        cx.ensure(*label == want, "Dot:node-label", || format!("node {} label {:?}, expected {:?}", idx, label, want))?;
    }
    for (k, (a, arrow, bb, label)) in p.edges.iter().enumerate() {
        cx.ensure(*arrow == directed, "Dot:edge-connector", || format!("edge statement #{} uses the wrong connector", k))?;
        cx.ensure((*a, *bb) == (edges[k].0, edges[k].1), "Dot:edge-endpoints", || format!("edge statement #{} is {} -> {}, the edge is {} -> {}", k, a, bb, edges[k].0, edges[k].1))?;
        let want = if b[2] { None } else if b[1] { Some(format!("{}", k)) } else { Some(expected_label(&edges[k].2, st)) };
        cx.ensure(*label == want, "Dot:edge-label", || format!("edge #{} label {:?}, expected {:?}", k, label, want))?;
    }
    Ok(())
}

fn render<G>(g: G, cfg: &[Config], st: Style) -> String
where
    G: IntoNodeReferences + IntoEdgeReferences + NodeIndexable + GraphProp,
    G::NodeWeight: std::fmt::Display + std::fmt::Debug,
    G::EdgeWeight: std::fmt::Display + std::fmt::Debug,
{
    let d = Dot::with_config(g, cfg);
    match st {
        Style::Display => format!("{}", d),
        Style::Debug => format!("{:?}", d),
        Style::AltDisplay => format!("{:#}", d),
        Style::AltDebug => format!("{:#?}", d),
    }
}

fn dot_on<G>(cx: &mut Cx, rng: &mut Rng, g: G, name: &str) -> R
where
    G: IntoNodeReferences + IntoEdgeReferences + NodeIndexable + GraphProp + Copy,
    G::NodeWeight: std::fmt::Display + std::fmt::Debug + AsRef<str>,
    G::EdgeWeight: std::fmt::Display + std::fmt::Debug + AsRef<str>,
{
    let nodes: Vec<(usize, String)> = g.node_references().map(|n| (g.to_index(n.id()), n.weight().as_ref().to_string())).collect();
    let edges: Vec<(usize, usize, String)> = g.edge_references().map(|e| (g.to_index(e.source()), g.to_index(e.target()), e.weight().as_ref().to_string())).collect();
    // one systematically enumerated Config combination per case + two random ones
    let combos = [cx.case as usize % 160, rng.below(160), rng.below(160)];
    for c in combos {
        let (cfg, b, rank) = config_of(c % 32, c / 32);
        let st = [Style::Display, Style::Debug, Style::AltDisplay, Style::AltDebug][rng.below(4)];
        cx.config = format!("Dot<{}>/{:?}", name, st);
        let text = match catch(|| render(g, &cfg, st)) {
            Ok(t) => t,
            Err(p) => return cx.ensure(false, "Dot:formatting-panicked", || p.short()),
        };
        cx.log(|| format!("Dot config bits {:05b} rank {:?} style {:?}: {:?}", c % 32, rank, st, text));
        cx.count(&format!("dot-config:{}", c));
        check_dot(cx, &text, g.is_directed(), &nodes, &edges, b, rank, st)?;
    }
    Ok(())
}

/// A weight whose `Display` hands its text to the formatter piecewise - one `write_char` per character, or short
/// `write_str` pieces, or one `write!` per character (chosen by the text's length) - instead of one `write_str`, as
/// `char` weights and hand-written `Display` impls do.  `Debug` is that of the text.
pub struct Piecewise(pub String);
impl AsRef<str> for Piecewise {
    fn as_ref(&self) -> &str {
        &self.0
    }
}
impl std::fmt::Debug for Piecewise {
    fn fmt(&self, f: &mut std::fmt::Formatter<'_>) -> std::fmt::Result {
        <str as std::fmt::Debug>::fmt(&self.0, f)
    }
}
impl std::fmt::Display for Piecewise {
    fn fmt(&self, f: &mut std::fmt::Formatter<'_>) -> std::fmt::Result {
        use std::fmt::Write;
        let cs: Vec<char> = self.0.chars().collect();
        match cs.len() % 3 {
            0 => {
                for &c in &cs {
                    f.write_char(c)?;
                }
            }
            1 => {
                for piece in cs.chunks(2) {
                    let t: String = piece.iter().collect();
                    f.write_str(&t)?;
                }
            }
            _ => {
                for &c in &cs {
                    write!(f, "{}", c)?;
                }
            }
        }
        Ok(())
    }
}

fn dot_case_ty<Ty: EdgeType>(cx: &mut Cx, rng: &mut Rng) -> R {
    let n = rng.below(if cx.small { 4 } else { 7 });
    let mut sg = StableGraph::<String, String, Ty, u32>::with_capacity(0, 0);
    let junk = sg.add_node("junk".into());
    let ids: Vec<_> = (0..n).map(|_| sg.add_node(evil(rng))).collect();
    let mut es = vec![];
    for _ in 0..rng.below(9) {
        if n > 0 {
            let (a, b) = (rng.below(n), rng.below(n));
            let w = evil(rng);
            sg.add_edge(ids[a], ids[b], w.clone());
            es.push((a, b, w));
        }
    }
    if rng.chance(3, 4) {
        sg.remove_node(junk);
    }
    if n > 2 && rng.coin() {
        sg.remove_node(ids[1]);
        es.retain(|e| e.0 != 1 && e.1 != 1);
    }
    let nh: u64 = sg.node_weights().fold(0u64, |h, w| crate::rng::mix(h, crate::rng::hash_str(w)));
    cx.note_case(crate::rng::mix(nh, es.len() as u64), sg.node_count() >= 2 && sg.edge_count() >= 1);
    dot_on(cx, rng, &sg, "StableGraph/holes")?;
    let gg: Graph<String, String, Ty, u32> = Graph::from(sg.clone());
    dot_on(cx, rng, &gg, "Graph")?;
    let gp: Graph<Piecewise, Piecewise, Ty, u32> = gg.map(|_, w| Piecewise(w.clone()), |_, w| Piecewise(w.clone()));
    dot_on(cx, rng, &gp, "Graph<piecewise-Display>")?;
    // simple-graph types: first weight wins
    let mut csr = Csr::<String, String, Ty, u32>::new();
    let mut mg = MatrixGraph::<String, String, std::collections::hash_map::RandomState, Ty, Option<String>, u16>::with_capacity(0);
    let extra = mg.add_node("extra".into());
    let mut mids = vec![];
    for i in gg.node_indices() {
        csr.add_node(gg[i].clone());
        mids.push(mg.add_node(gg[i].clone()));
    }
    mg.remove_node(extra);
    for e in gg.edge_references() {
        csr.add_edge(e.source().index() as u32, e.target().index() as u32, e.weight().clone());
        if !mg.has_edge(mids[e.source().index()], mids[e.target().index()]) {
            mg.add_edge(mids[e.source().index()], mids[e.target().index()], e.weight().clone());
        }
    }
    dot_on(cx, rng, &csr, "Csr")?;
    dot_on(cx, rng, &mg, "MatrixGraph/removed-id")?;
    // a filtered view hides nodes: ids must still be the real indices
    let keep_from = NodeIndex::<u32>::new(1);
    let nf = NodeFiltered(&gg, move |x: NodeIndex<u32>| x != keep_from);
    dot_on(cx, rng, &nf, "NodeFiltered<Graph>")?;
    Ok(())
}

pub fn case(cx: &mut Cx, rng: &mut Rng) -> R {
    if rng.chance(2, 5) {
        graph6_case(cx, rng)
    } else if rng.coin() {
        dot_case_ty::<Directed>(cx, rng)
    } else {
        dot_case_ty::<Undirected>(cx, rng)
    }
}
