//! C12 - min_spanning_tree (Kruskal) and min_spanning_tree_prim against an independent
//! sort-based Kruskal and structural certificate checks on the element stream.

use crate::abs::{gen, Abs, GenOpts};
use crate::corr::Back;
use crate::cx::{Cx, R};
use crate::num::Num;
use crate::oracle::*;
use crate::rng::Rng;
use petgraph::algo;
use petgraph::data::Element;
use petgraph::visit::*;

struct Stream {
    nodes: usize,
    edges: Vec<(usize, usize, i64)>, // abs endpoints
}

fn read_stream<G>(
    cx: &mut Cx,
    abs: &Abs,
    g: G,
    ids: &[G::NodeId],
    it: impl Iterator<Item = Element<G::NodeWeight, G::EdgeWeight>>,
    what: &str,
) -> R<Stream>
where
    G: IntoNodeReferences + NodeIndexable + Copy,
    G::NodeWeight: Clone + PartialEq + std::fmt::Debug,
    G::EdgeWeight: Num,
{
    let back = Back::new(g, ids);
    let expect: Vec<(G::NodeId, G::NodeWeight)> = g.node_references().map(|r| (r.id(), r.weight().clone())).collect();
    let mut pos_to_abs: Vec<usize> = vec![];
    let mut edges = vec![];
    let mut seen_edge = false;
    let cap = abs.n + abs.m() + 5;
    for (k, el) in it.enumerate() {
        cx.ensure(k < cap, &format!("{}:stream-overrun", what), || "stream longer than nodes + edges".into())?;
        match el {
            Element::Node { weight } => {
                cx.ensure(!seen_edge, &format!("{}:node-after-edge", what), || "a Node element after the first Edge element".into())?;
                let i = pos_to_abs.len();
                cx.ensure(i < expect.len(), &format!("{}:too-many-nodes", what), || format!("more than {} node elements", expect.len()))?;
                cx.ensure(weight == expect[i].1, &format!("{}:node-weight-order", what), || {
                    format!("node element #{} has weight {:?}, node_references()[{}] has {:?}", i, weight, i, expect[i].1)
                })?;
                pos_to_abs.push(back.abs(cx, g, expect[i].0, what)?);
            }
            Element::Edge { source, target, weight } => {
                seen_edge = true;
                cx.ensure(pos_to_abs.len() == expect.len(), &format!("{}:nodes-missing", what), || {
                    format!("only {} of {} nodes were listed before the first edge", pos_to_abs.len(), expect.len())
                })?;
                cx.ensure(source < pos_to_abs.len() && target < pos_to_abs.len(), &format!("{}:edge-endpoint-out-of-range", what), || {
                    format!("edge element ({}, {}) with {} nodes", source, target, pos_to_abs.len())
                })?;
                edges.push((pos_to_abs[source], pos_to_abs[target], weight.to_i64()));
            }
        }
    }
    cx.ensure(pos_to_abs.len() == expect.len(), &format!("{}:nodes-missing", what), || {
        format!("only {} of {} nodes were listed", pos_to_abs.len(), expect.len())
    })?;
    Ok(Stream { nodes: pos_to_abs.len(), edges })
}

fn check_edges_belong(cx: &mut Cx, abs: &Abs, edges: &[(usize, usize, i64)], what: &str) -> R {
    // multiset containment of (u,v,w) in the graph's edges (orientation exact for directed storage)
    let key = |u: usize, v: usize, w: i64| if abs.directed || u <= v { (u, v, w) } else { (v, u, w) };
    let mut have: std::collections::BTreeMap<(usize, usize, i64), i64> = Default::default();
    for &(u, v, w) in &abs.edges {
        *have.entry(key(u, v, w)).or_insert(0) += 1;
    }
    for &(u, v, w) in edges {
        let c = have.entry(key(u, v, w)).or_insert(0);
        *c -= 1;
        cx.ensure(*c >= 0, &format!("{}:edge-not-in-graph", what), || {
            format!("stream edge {}->{} weight {} is not an (unused) edge of the graph", u, v, w)
        })?;
    }
    Ok(())
}

pub fn check_kruskal<G>(cx: &mut Cx, abs: &Abs, g: G, ids: &[G::NodeId]) -> R
where
    G: IntoNodeReferences + IntoEdgeReferences + NodeIndexable + Copy,
    G::NodeWeight: Clone + PartialEq + std::fmt::Debug,
    G::EdgeWeight: Num + PartialOrd,
{
    let (wstar, comps) = msf_weight(abs);
    let st = read_stream(cx, abs, g, ids, algo::min_spanning_tree(g), "min_spanning_tree")?;
    cx.ensure(st.nodes == abs.n, "min_spanning_tree:node-count", || format!("{} node elements, graph has {}", st.nodes, abs.n))?;
    check_edges_belong(cx, abs, &st.edges, "min_spanning_tree")?;
    let pairs: Vec<(usize, usize)> = st.edges.iter().map(|e| (e.0, e.1)).collect();
    cx.ensure(is_forest(abs.n, &pairs), "min_spanning_tree:cycle", || format!("edges {:?} contain a cycle", st.edges))?;
    cx.ensure(st.edges.len() + comps == abs.n, "min_spanning_tree:edge-count", || {
        format!("{} edges; a spanning forest of {} nodes in {} components has {}", st.edges.len(), abs.n, comps, abs.n - comps)
    })?;
    let tot: i64 = st.edges.iter().map(|e| e.2).sum();
    cx.ensure(tot == wstar, "min_spanning_tree:not-minimum", || format!("total weight {}, minimum spanning forest weighs {} (edges {:?})", tot, wstar, st.edges))?;
    Ok(())
}

pub fn check_prim<G>(cx: &mut Cx, abs: &Abs, g: G, ids: &[G::NodeId]) -> R
where
    G: IntoNodeReferences + IntoEdgeReferences + IntoEdges + NodeIndexable + Copy,
    G::NodeWeight: Clone + PartialEq + std::fmt::Debug,
    G::EdgeWeight: Num + PartialOrd,
{
    let st = read_stream(cx, abs, g, ids, algo::min_spanning_tree_prim(g), "min_spanning_tree_prim")?;
    cx.ensure(st.nodes == abs.n, "min_spanning_tree_prim:node-count", || format!("{} node elements, graph has {}", st.nodes, abs.n))?;
    if abs.n == 0 {
        return cx.ensure(st.edges.is_empty(), "min_spanning_tree_prim:edges-on-empty", || "edges on the empty graph".into());
    }
    check_edges_belong(cx, abs, &st.edges, "min_spanning_tree_prim")?;
    let back = Back::new(g, ids);
    let first = back.abs(cx, g, g.node_references().next().unwrap().id(), "min_spanning_tree_prim")?;
    let (lab, _) = weak_components(abs);
    let comp: Vec<usize> = (0..abs.n).filter(|&v| lab[v] == lab[first]).collect();
    // minimum weight of a spanning tree of that component
    let mut sub = Abs::new(abs.n, false);
    for &(u, v, w) in &abs.edges {
        if lab[u] == lab[first] {
            sub.add(u, v, w);
        }
    }
    let (wstar, _) = msf_weight(&sub);
    let pairs: Vec<(usize, usize)> = st.edges.iter().map(|e| (e.0, e.1)).collect();
    cx.ensure(is_forest(abs.n, &pairs), "min_spanning_tree_prim:cycle", || format!("edges {:?} contain a cycle", st.edges))?;
    cx.ensure(st.edges.iter().all(|e| lab[e.0] == lab[first]), "min_spanning_tree_prim:edge-outside-component", || "edge outside the first node's component".into())?;
    cx.ensure(st.edges.len() + 1 == comp.len(), "min_spanning_tree_prim:not-spanning", || {
        format!("{} edges for the first node's component of {} nodes (first node {})", st.edges.len(), comp.len(), first)
    })?;
    let tot: i64 = st.edges.iter().map(|e| e.2).sum();
    cx.ensure(tot == wstar, "min_spanning_tree_prim:not-minimum", || format!("total weight {}, minimum is {} (edges {:?})", tot, wstar, st.edges))?;
    Ok(())
}

/// from_elements(min_spanning_tree(g)) rebuilds exactly the streamed forest
pub fn check_from_elements(cx: &mut Cx, abs: &Abs) -> R {
    use petgraph::data::FromElements;
    use petgraph::graph::Graph;
    use petgraph::stable_graph::StableGraph;
    macro_rules! go {
        ($Ty:ty) => {{
            let mut sg = StableGraph::<u32, i64, $Ty, u32>::with_capacity(0, 0);
            let junk = sg.add_node(777);
            let ids: Vec<_> = (0..abs.n).map(|i| sg.add_node(i as u32)).collect();
            for &(u, v, w) in &abs.edges {
                sg.add_edge(ids[u], ids[v], w);
            }
            sg.remove_node(junk);
            let stream: Vec<Element<u32, i64>> = algo::min_spanning_tree(&sg).collect();
            let rebuilt = Graph::<u32, i64, $Ty, u32>::from_elements(stream.iter().cloned());
            let n_nodes = stream.iter().filter(|e| matches!(e, Element::Node { .. })).count();
            cx.ensure(rebuilt.node_count() == n_nodes && n_nodes == abs.n, "from_elements(min_spanning_tree):node-count", || {
                format!("rebuilt graph has {} nodes, stream {} node elements, graph {}", rebuilt.node_count(), n_nodes, abs.n)
            })?;
            for (i, w) in rebuilt.node_weights().enumerate() {
                cx.ensure(*w == i as u32, "from_elements(min_spanning_tree):node-weights", || format!("node {} carries weight {}", i, w))?;
            }
            let mut want: Vec<(usize, usize, i64)> = stream
                .iter()
                .filter_map(|e| match e {
                    Element::Edge { source, target, weight } => Some((*source, *target, *weight)),
                    _ => None,
                })
                .collect();
            let mut got: Vec<(usize, usize, i64)> = rebuilt.edge_references().map(|e| (e.source().index(), e.target().index(), *e.weight())).collect();
            want.sort();
            got.sort();
            cx.ensure(got == want, "from_elements(min_spanning_tree):edges", || format!("rebuilt edges {:?}, stream edges {:?}", got, want))?;
            let (wstar, comps) = msf_weight(abs);
            cx.ensure(rebuilt.edge_count() + comps == abs.n && got.iter().map(|e| e.2).sum::<i64>() == wstar, "from_elements(min_spanning_tree):forest", || {
                "rebuilt graph is not a minimum spanning forest".into()
            })?;
        }};
    }
    if abs.directed {
        go!(petgraph::Directed)
    } else {
        go!(petgraph::Undirected)
    }
    Ok(())
}

macro_rules! c12_on {
    ($cx:expr, $rng:expr, $abs:expr, $W:ty) => {{
        let abs: &Abs = $abs;
        with_enc!(one, abs, $rng, $W, |w| <$W as Num>::from_i64(w),
            directed: [GraphU8, GraphShuf, GraphUsize, StableHoles, StableU8, GMap, Matrix, CsrT, ListT],
            undirected: [GraphU8, GraphShuf, GraphUsize, StableHoles, StableU8, GMap, Matrix, CsrT],
            |g, ids, tag| {
                $cx.config = format!("{}/{}", tag.name(), <$W as Num>::NAME);
                $cx.count(&format!("cell:kruskal/{}", tag.name()));
                let _ = check_kruskal($cx, abs, g, ids);
            });
        if !abs.directed {
            with_enc!(one, abs, $rng, $W, |w| <$W as Num>::from_i64(w),
                directed: [GraphU8],
                undirected: [GraphU8, GraphShuf, GraphUsize, StableHoles, StableU8, GMap, Matrix, CsrT],
                |g, ids, tag| {
                    $cx.config = format!("{}/{}", tag.name(), <$W as Num>::NAME);
                    $cx.count(&format!("cell:prim/{}", tag.name()));
                    let _ = check_prim($cx, abs, g, ids);
                });
        }
    }};
}

pub fn case(cx: &mut Cx, rng: &mut Rng) -> R {
    let nmax = if cx.small { 6 } else if rng.chance(1, if cx.thorough { 40 } else { 150 }) { 70 } else if rng.chance(1, 10) { 14 } else { 9 };
    let (lo, hi) = match rng.below(3) {
        0 => (1, 2),
        1 => (0, 9),
        _ => (-5, 20),
    };
    let abs = gen(rng, &GenOpts::new(nmax).weights(lo, hi));
    cx.log(|| abs.describe());
    let (_, comps) = weak_components(&abs);
    cx.note_case(abs.hash(), abs.n >= 3 && abs.m() >= 2);
    if comps >= 2 {
        cx.count("feature:disconnected");
    }
    if abs.has_parallel() {
        cx.count("feature:parallel-edges");
    }
    cx.count(&format!("family:{}", abs.family));
    if rng.coin() {
        c12_on!(cx, rng, &abs, i64);
    } else {
        // float weights: a NaN on a self-loop can never be part of a forest, so the minimum stays well defined, but it
        // goes through the same priority queue as the other edges (MinScored documents a total order for floats)
        let mut abs = abs.clone();
        if abs.n > 0 && rng.chance(1, 3) {
            for _ in 0..1 + rng.below(2) {
                let v = rng.below(abs.n);
                let pos = rng.below(abs.m() + 1);
                abs.edges.insert(pos, (v, v, i64::MIN));
            }
            cx.count("feature:NaN-weight-on-self-loop");
            cx.log(|| format!("with NaN self-loops: {}", abs.describe()));
        }
        c12_on!(cx, rng, &abs, f64);
    }
    cx.config = "from_elements/StableGraph<u32>/holes->Graph".into();
    let _ = check_from_elements(cx, &abs);
    Ok(())
}
