//! C11 - bellman_ford, spfa, floyd_warshall(_path), find_negative_cycle with signed costs,
//! against reference Bellman-Ford / Floyd-Warshall over Option<i64> and certificate checks.

use crate::abs::{convex_dag, gen, reweight_potentials, Abs, GenOpts};
use crate::corr::Back;
use crate::cx::{Cx, R};
use crate::num::Num;
use crate::oracle::*;
use crate::rng::Rng;
use petgraph::algo::{self, BoundedMeasure, FloatMeasure};
use petgraph::visit::*;
use std::hash::Hash;

/// distances + predecessors (indexed by to_index) -> per abs node
fn check_paths<G, K: Num>(
    cx: &mut Cx,
    abs: &Abs,
    g: G,
    ids: &[G::NodeId],
    s: usize,
    d: &[Option<i64>],
    dist: &[K],
    pred: &[Option<G::NodeId>],
    is_inf: impl Fn(K) -> bool,
    what: &str,
) -> R
where
    G: NodeIndexable + Copy,
{
    let back = Back::new(g, ids);
    cx.ensure(dist.len() >= g.node_bound() && pred.len() >= g.node_bound(), &format!("{}:vector-length", what), || {
        format!("distances {} / predecessors {} shorter than node_bound {}", dist.len(), pred.len(), g.node_bound())
    })?;
    let mut p: Vec<Option<usize>> = vec![None; abs.n];
    for v in 0..abs.n {
        let i = g.to_index(ids[v]);
        match d[v] {
            Some(x) => cx.ensure(!is_inf(dist[i]) && dist[i].to_i64() == x, &format!("{}:distance", what), || {
                format!("source {}: node {} got {:?}, true distance {}", s, v, dist[i], x)
            })?,
            None => cx.ensure(is_inf(dist[i]), &format!("{}:unreachable-not-infinite", what), || {
                format!("source {}: node {} is unreachable but got {:?}", s, v, dist[i])
            })?,
        }
        if let Some(q) = pred[i] {
            p[v] = Some(back.abs(cx, g, q, what)?);
        }
    }
    for v in 0..abs.n {
        if v == s || d[v].is_none() {
            cx.ensure(p[v].is_none(), &format!("{}:predecessor-of-source-or-unreachable", what), || {
                format!("source {}: node {} (distance {:?}) has predecessor {:?}", s, v, d[v], p[v])
            })?;
        } else {
            cx.ensure(p[v].is_some(), &format!("{}:predecessor-missing", what), || format!("source {}: reachable node {} has no predecessor", s, v))?;
            let u = p[v].unwrap();
            let tight = match (d[u], abs.min_w(u, v)) {
                (Some(du), Some(w)) => du + w == d[v].unwrap(),
                _ => false,
            };
            cx.ensure(tight, &format!("{}:predecessor-not-tight", what), || {
                format!("source {}: pred[{}]={} but d[{}]={:?}, w={:?}, d[{}]={:?}", s, v, u, u, d[u], abs.min_w(u, v), v, d[v])
            })?;
        }
    }
    // tree: every reachable node walks back to the source
    for v in 0..abs.n {
        if d[v].is_some() {
            let mut cur = v;
            let mut steps = 0;
            while cur != s {
                cur = p[cur].unwrap();
                steps += 1;
                cx.ensure(steps <= abs.n, &format!("{}:predecessors-cycle", what), || format!("predecessor chain from {} does not reach the source {}", v, s))?;
            }
        }
    }
    Ok(())
}

pub fn check_bf<G>(cx: &mut Cx, rng: &mut Rng, abs: &Abs, g: G, ids: &[G::NodeId]) -> R
where
    G: NodeCount + IntoNodeIdentifiers + IntoEdges + NodeIndexable + Visitable + Copy,
    G::EdgeWeight: FloatMeasure + Num,
{
    if abs.n == 0 {
        return Ok(());
    }
    let s = rng.below(abs.n);
    let want = bf_ref(abs, s);
    let inf = <G::EdgeWeight as FloatMeasure>::infinite();
    match algo::bellman_ford(g, ids[s]) {
        Err(_) => cx.ensure(want.is_err(), "bellman_ford:false-negative-cycle", || {
            format!("source {}: Err(NegativeCycle) but no negative cycle is reachable", s)
        })?,
        Ok(paths) => {
            cx.ensure(want.is_ok(), "bellman_ford:missed-negative-cycle", || format!("source {}: Ok although a negative cycle is reachable", s))?;
            check_paths(cx, abs, g, ids, s, want.as_ref().unwrap(), &paths.distances, &paths.predecessors, |x| x == inf, "bellman_ford")?;
        }
    }
    // find_negative_cycle
    let back = Back::new(g, ids);
    match algo::find_negative_cycle(g, ids[s]) {
        None => cx.ensure(want.is_ok(), "find_negative_cycle:none-but-bf-errs", || format!("source {}: None although a negative cycle is reachable", s))?,
        Some(cyc) => {
            cx.ensure(want.is_err(), "find_negative_cycle:some-but-no-cycle", || format!("source {}: Some(..) although no negative cycle is reachable", s))?;
            let mut c = vec![];
            for &id in &cyc {
                c.push(back.abs(cx, g, id, "find_negative_cycle")?);
            }
            cx.ensure(!c.is_empty(), "find_negative_cycle:empty", || "empty cycle".into())?;
            let mut sum = 0i64;
            for i in 0..c.len() {
                let (u, v) = (c[i], c[(i + 1) % c.len()]);
                let w = abs.min_w(u, v);
                cx.ensure(w.is_some(), "find_negative_cycle:not-a-closed-walk", || {
                    format!("source {}: returned {:?}, but there is no edge {}->{}", s, c, u, v)
                })?;
                sum += w.unwrap();
            }
            cx.ensure(sum < 0, "find_negative_cycle:not-negative", || format!("source {}: closed walk {:?} costs {}", s, c, sum))?;
        }
    }
    Ok(())
}

pub fn check_spfa<G, K>(cx: &mut Cx, rng: &mut Rng, abs: &Abs, g: G, ids: &[G::NodeId]) -> R
where
    G: IntoEdges + IntoNodeIdentifiers + NodeIndexable + Copy,
    G::EdgeWeight: Num + BoundedMeasure,
{
    let _ = std::marker::PhantomData::<K>;
    if abs.n == 0 {
        return Ok(());
    }
    let s = rng.below(abs.n);
    let want = bf_ref(abs, s);
    let mx = <G::EdgeWeight as BoundedMeasure>::max();
    match algo::spfa(g, ids[s], |e| *e.weight()) {
        Err(_) => cx.ensure(want.is_err(), "spfa:false-negative-cycle", || {
            format!("source {}: Err(NegativeCycle) but no negative cycle is reachable", s)
        })?,
        Ok(paths) => {
            cx.ensure(want.is_ok(), "spfa:missed-negative-cycle", || format!("source {}: Ok although a negative cycle is reachable", s))?;
            check_paths(cx, abs, g, ids, s, want.as_ref().unwrap(), &paths.distances, &paths.predecessors, |x| x == mx, "spfa")?;
        }
    }
    Ok(())
}

pub fn check_fw<G>(cx: &mut Cx, abs: &Abs, g: G, ids: &[G::NodeId]) -> R
where
    G: NodeCompactIndexable + IntoEdgeReferences + IntoNodeIdentifiers + GraphProp + Copy,
    G::NodeId: Eq + Hash,
    G::EdgeWeight: Num + BoundedMeasure,
{
    let want = fw_ref(abs);
    let mx = <G::EdgeWeight as BoundedMeasure>::max();
    let r1 = algo::floyd_warshall(g, |e| *e.weight());
    let r2 = algo::floyd_warshall::floyd_warshall_path(g, |e| *e.weight());
    cx.ensure(r1.is_ok() == r2.is_ok(), "floyd_warshall:variants-disagree", || "floyd_warshall and floyd_warshall_path disagree on Ok/Err".into())?;
    match (r1, r2) {
        (Ok(m), Ok((m2, prev))) => {
            cx.ensure(want.is_ok(), "floyd_warshall:missed-negative-cycle", || "Ok although the graph has a negative cycle".into())?;
            let d = want.unwrap();
            cx.ensure(m.len() == abs.n * abs.n && m2.len() == abs.n * abs.n, "floyd_warshall:map-size", || format!("{} / {} entries for {} nodes", m.len(), m2.len(), abs.n))?;
            for i in 0..abs.n {
                for j in 0..abs.n {
                    for (which, mm) in [("floyd_warshall", &m), ("floyd_warshall_path", &m2)] {
                        let got = mm.get(&(ids[i], ids[j]));
                        cx.ensure(got.is_some(), &format!("{}:pair-missing", which), || format!("no entry for pair ({},{})", i, j))?;
                        let got = *got.unwrap();
                        match d[i][j] {
                            Some(x) => cx.ensure(got != mx && got.to_i64() == x, &format!("{}:distance", which), || {
                                format!("pair ({},{}) got {:?}, true distance {}", i, j, got, x)
                            })?,
                            None => cx.ensure(got == mx, &format!("{}:unreachable-not-max", which), || {
                                format!("pair ({},{}) is unreachable but got {:?}", i, j, got)
                            })?,
                        }
                    }
                    // prev spells out a shortest path
                    let (ii, jj) = (g.to_index(ids[i]), g.to_index(ids[j]));
                    if let Some(x) = d[i][j] {
                        if i != j {
                            let mut cur = jj;
                            let mut sum = 0i64;
                            let mut steps = 0;
                            let by_index: Vec<usize> = {
                                let mut b = vec![usize::MAX; abs.n];
                                for a in 0..abs.n {
                                    b[g.to_index(ids[a])] = a;
                                }
                                b
                            };
                            while cur != ii {
                                let p = prev[ii][cur];
                                cx.ensure(p.is_some() && p.unwrap() < abs.n, "floyd_warshall_path:prev-missing", || format!("prev[{}][{}] = {:?} on the way from {} to {}", ii, cur, p, i, j))?;
                                let p = p.unwrap();
                                let w = abs.min_w(by_index[p], by_index[cur]);
                                cx.ensure(w.is_some(), "floyd_warshall_path:prev-not-an-edge", || format!("prev says {}->{} but there is no such edge", by_index[p], by_index[cur]))?;
                                sum += w.unwrap();
                                cur = p;
                                steps += 1;
                                cx.ensure(steps <= abs.n, "floyd_warshall_path:prev-cycle", || format!("prev chain from {} to {} loops", i, j))?;
                            }
                            cx.ensure(sum == x, "floyd_warshall_path:prev-path-cost", || format!("pair ({},{}): path by prev costs {}, distance {}", i, j, sum, x))?;
                        }
                    } else {
                        cx.ensure(prev[ii][jj].is_none(), "floyd_warshall_path:prev-for-unreachable", || format!("pair ({},{}) unreachable but prev = {:?}", i, j, prev[ii][jj]))?;
                    }
                }
            }
        }
        (Err(_), Err(_)) => cx.ensure(want.is_err(), "floyd_warshall:false-negative-cycle", || "Err(NegativeCycle) but the graph has no negative cycle".into())?,
        _ => unreachable!(),
    }
    Ok(())
}

macro_rules! on_all {
    ($cx:expr, $rng:expr, $abs:expr, $W:ty, $label:expr, |$g:ident, $ids:ident| $body:expr) => {{
        let abs: &Abs = $abs;
        with_enc!(one, abs, $rng, $W, |w| <$W as Num>::from_i64(w),
            directed: [GraphU8, GraphShuf, GraphUsize, StableHoles, StableU8, GMap, Matrix, CsrT, ListT],
            undirected: [GraphU8, GraphShuf, GraphUsize, StableHoles, StableU8, GMap, Matrix, CsrT],
            |$g, $ids, tag| {
                $cx.config = format!("{}/{}", tag.name(), <$W as Num>::NAME);
                $cx.count(&format!("cell:{}/{}/{}", $label, tag.name(), <$W as Num>::NAME));
                let _ = $body;
            });
    }};
}
macro_rules! on_compact {
    ($cx:expr, $rng:expr, $abs:expr, $W:ty, $label:expr, |$g:ident, $ids:ident| $body:expr) => {{
        let abs: &Abs = $abs;
        with_enc!(one, abs, $rng, $W, |w| <$W as Num>::from_i64(w),
            directed: [GraphU8, GraphShuf, GraphUsize, GMap, CsrT, ListT],
            undirected: [GraphU8, GraphShuf, GraphUsize, GMap, CsrT],
            |$g, $ids, tag| {
                $cx.config = format!("{}/{}", tag.name(), <$W as Num>::NAME);
                $cx.count(&format!("cell:{}/{}/{}", $label, tag.name(), <$W as Num>::NAME));
                let _ = $body;
            });
    }};
}

pub fn gen_signed(cx: &mut Cx, rng: &mut Rng) -> Abs {
    let nmax = if cx.small { 5 } else if rng.chance(1, if cx.thorough { 40 } else { 150 }) { 30 } else if rng.chance(1, 10) { 11 } else { 7 };
    let mode = rng.below(10);
    let mut abs;
    match mode {
        0 | 1 | 2 => {
            // negative edges, no negative cycle (potentials), unreachable parts likely
            abs = gen(rng, &GenOpts::new(nmax).directed(true).weights(0, 6));
            reweight_potentials(rng, &mut abs, 5, 8);
            cx.count("weights:potentials");
        }
        3 | 4 => {
            // arbitrary small signed weights: negative cycles frequent
            abs = gen(rng, &GenOpts::new(nmax).directed(true).weights(-3, 6));
            cx.count("weights:signed-random");
        }
        5 => {
            // potentials + one planted negative cycle edge
            abs = gen(rng, &GenOpts::new(nmax).directed(true).weights(0, 6));
            reweight_potentials(rng, &mut abs, 5, 8);
            if !abs.edges.is_empty() {
                let i = rng.below(abs.edges.len());
                abs.edges[i].2 -= rng.range(1, 12);
            }
            cx.count("weights:potentials+one-lowered-edge");
        }
        6 => {
            // negative self-loop as the only negative cycle
            abs = gen(rng, &GenOpts::new(nmax).directed(true).weights(0, 6).loops(false));
            if abs.n > 0 {
                let v = rng.below(abs.n);
                abs.add(v, v, -rng.range(1, 4));
            }
            cx.count("weights:negative-self-loop-only");
        }
        7 => {
            let n = rng.urange(2, if cx.small { 5 } else { 9 });
            abs = convex_dag(n, rng.coin());
            if rng.coin() {
                // perturb
                for e in abs.edges.iter_mut() {
                    if rng.chance(1, 5) {
                        e.2 += rng.range(0, 2);
                    }
                }
            }
            cx.count("weights:convex-complete-dag");
        }
        8 => {
            // undirected, non-negative, zero-weight cycles
            abs = gen(rng, &GenOpts::new(nmax).directed(false).weights(0, 3));
            cx.count("weights:undirected-nonneg");
        }
        _ => {
            // undirected with an occasional negative edge (= negative cycle through that edge)
            abs = gen(rng, &GenOpts::new(nmax).directed(false).weights(0, 5));
            if !abs.edges.is_empty() && rng.coin() {
                let i = rng.below(abs.edges.len());
                abs.edges[i].2 = -rng.range(1, 3);
            }
            cx.count("weights:undirected-maybe-negative-edge");
        }
    }
    abs
}

pub fn case(cx: &mut Cx, rng: &mut Rng) -> R {
    let abs = gen_signed(cx, rng);
    cx.log(|| abs.describe());
    let has_neg = abs.edges.iter().any(|e| e.2 < 0);
    cx.note_case(abs.hash(), abs.n >= 3 && abs.m() >= 2 && has_neg);
    if fw_ref(&abs).is_err() {
        cx.count("feature:has-negative-cycle");
    } else if has_neg {
        cx.count("feature:negative-edges-no-negative-cycle");
    }
    // bellman_ford + find_negative_cycle (float only)
    if rng.coin() {
        on_all!(cx, rng, &abs, f64, "bellman_ford", |g, ids| check_bf(cx, rng, &abs, g, ids));
    } else {
        on_all!(cx, rng, &abs, f32, "bellman_ford", |g, ids| check_bf(cx, rng, &abs, g, ids));
    }
    match rng.below(3) {
        0 => on_all!(cx, rng, &abs, i32, "spfa", |g, ids| check_spfa::<_, i32>(cx, rng, &abs, g, ids)),
        1 => on_all!(cx, rng, &abs, i64, "spfa", |g, ids| check_spfa::<_, i64>(cx, rng, &abs, g, ids)),
        _ => on_all!(cx, rng, &abs, f64, "spfa", |g, ids| check_spfa::<_, f64>(cx, rng, &abs, g, ids)),
    }
    match rng.below(3) {
        0 => on_compact!(cx, rng, &abs, i32, "floyd_warshall", |g, ids| check_fw(cx, &abs, g, ids)),
        1 => on_compact!(cx, rng, &abs, i64, "floyd_warshall", |g, ids| check_fw(cx, &abs, g, ids)),
        _ => on_compact!(cx, rng, &abs, f64, "floyd_warshall", |g, ids| check_fw(cx, &abs, g, ids)),
    }
    // the adversarial insertion order for label-correcting algorithms, on the one encoding that
    // preserves insertion order exactly
    if abs.family == "convex_dag" {
        use petgraph::graph::DiGraph;
        let mut g = DiGraph::<u32, i64>::new();
        let ids: Vec<_> = (0..abs.n).map(|i| g.add_node(i as u32)).collect();
        for &(u, v, w) in &abs.edges {
            g.add_edge(ids[u], ids[v], w);
        }
        cx.config = "Graph<u32>/insertion-order-preserved/i64".into();
        let mut r2 = Rng::new(0);
        let _ = check_spfa::<_, i64>(cx, &mut r2, &abs, &g, &ids);
        let abs0 = abs.clone();
        for s in 0..abs0.n.min(2) {
            // source 0 / 1 explicitly
            let want = bf_ref(&abs0, s);
            let got = algo::spfa(&g, ids[s], |e| *e.weight());
            cx.ensure(got.is_ok() == want.is_ok(), "spfa:convex-dag-verdict", || format!("source {}: spfa ok={}, reference ok={}", s, got.is_ok(), want.is_ok()))?;
        }
    }
    Ok(())
}
