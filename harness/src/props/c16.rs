//! C16 - dominators::simple_fast and articulation_points against deletion-based definitions.

use crate::abs::{gen, Abs, GenOpts};
use crate::corr::Back;
use crate::cx::{Cx, R};
use crate::oracle::*;
use crate::rng::Rng;
use petgraph::algo;
use petgraph::visit::*;
use std::hash::Hash;

/// reach[v] from root in abs with node `del` deleted
fn reach_without(abs: &Abs, adj: &[Vec<(usize, usize)>], root: usize, del: usize) -> Vec<bool> {
    let mut r = vec![false; abs.n];
    if root == del {
        return r;
    }
    r[root] = true;
    let mut st = vec![root];
    while let Some(u) = st.pop() {
        for &(v, _) in &adj[u] {
            if v != del && !r[v] {
                r[v] = true;
                st.push(v);
            }
        }
    }
    r
}

pub fn check_dominators<G>(cx: &mut Cx, rng: &mut Rng, abs: &Abs, g: G, ids: &[G::NodeId]) -> R
where
    G: IntoNeighbors + Visitable + NodeIndexable + Copy,
    G::NodeId: Eq + Hash,
{
    if abs.n == 0 {
        return Ok(());
    }
    let back = Back::new(g, ids);
    let adj = abs.out_adj();
    let root = rng.below(abs.n);
    let reach = reach_without(abs, &adj, root, usize::MAX);
    // dom[b] = set of dominators of b
    let mut dom = vec![vec![false; abs.n]; abs.n];
    for a in 0..abs.n {
        if !reach[a] {
            continue;
        }
        let r = reach_without(abs, &adj, root, a);
        for b in 0..abs.n {
            if reach[b] && (a == b || !r[b]) {
                dom[b][a] = true;
            }
        }
    }
    let d = algo::dominators::simple_fast(g, ids[root]);
    cx.ensure(back.get(g, d.root()) == Some(root), "dominators:root", || "root() is not the requested root".into())?;
    let mut idom_of: Vec<Option<usize>> = vec![None; abs.n];
    for b in 0..abs.n {
        let got = d.dominators(ids[b]);
        if !reach[b] {
            cx.ensure(got.is_none(), "dominators:entry-for-unreachable", || format!("root {}: unreachable node {} has a dominators() entry", root, b))?;
            cx.ensure(d.immediate_dominator(ids[b]).is_none(), "immediate_dominator:entry-for-unreachable", || format!("root {}: unreachable node {} has an immediate dominator", root, b))?;
            cx.ensure(d.strict_dominators(ids[b]).is_none(), "strict_dominators:entry-for-unreachable", || format!("root {}: unreachable node {}", root, b))?;
            continue;
        }
        cx.ensure(got.is_some(), "dominators:no-entry-for-reachable", || format!("root {}: reachable node {} has no dominators() entry", root, b))?;
        let mut set = vec![false; abs.n];
        let mut chain = vec![];
        for (k, x) in got.unwrap().enumerate() {
            cx.ensure(k <= abs.n, "dominators:iterator-overrun", || format!("root {}: dominators({}) does not end", root, b))?;
            let a = back.abs(cx, g, x, "dominators")?;
            set[a] = true;
            chain.push(a);
        }
        cx.ensure(set == dom[b], "dominators:set", || {
            let want: Vec<usize> = (0..abs.n).filter(|&a| dom[b][a]).collect();
            format!("root {}: dominators({}) = {:?}, by deletion {:?}", root, b, chain, want)
        })?;
        // strict dominators = dominators minus self
        let mut sset = vec![false; abs.n];
        for (k, x) in d.strict_dominators(ids[b]).unwrap().enumerate() {
            cx.ensure(k <= abs.n, "strict_dominators:iterator-overrun", || "does not end".into())?;
            sset[back.abs(cx, g, x, "strict_dominators")?] = true;
        }
        let mut want = dom[b].clone();
        want[b] = false;
        cx.ensure(sset == want, "strict_dominators:set", || format!("root {}: strict_dominators({}) wrong", root, b))?;
        // immediate dominator: the strict dominator dominated by all other strict dominators
        let idom = d.immediate_dominator(ids[b]);
        if b == root {
            cx.ensure(idom.is_none(), "immediate_dominator:root-has-one", || "the root has an immediate dominator".into())?;
        } else {
            cx.ensure(idom.is_some(), "immediate_dominator:missing", || format!("root {}: node {} has no immediate dominator", root, b))?;
            let i = back.abs(cx, g, idom.unwrap(), "immediate_dominator")?;
            let ok = want[i] && (0..abs.n).all(|a| !want[a] || dom[i][a]);
            cx.ensure(ok, "immediate_dominator:not-closest", || {
                let w: Vec<usize> = (0..abs.n).filter(|&a| want[a]).collect();
                format!("root {}: immediate_dominator({}) = {}, strict dominators {:?}", root, b, i, w)
            })?;
            idom_of[b] = Some(i);
        }
    }
    for a in 0..abs.n {
        let mut got = vec![false; abs.n];
        for (k, x) in d.immediately_dominated_by(ids[a]).enumerate() {
            cx.ensure(k <= abs.n, "immediately_dominated_by:overrun", || "does not end".into())?;
            let b = back.abs(cx, g, x, "immediately_dominated_by")?;
            cx.ensure(!got[b], "immediately_dominated_by:twice", || format!("node {} listed twice", b))?;
            got[b] = true;
        }
        let want: Vec<bool> = (0..abs.n).map(|b| idom_of[b] == Some(a)).collect();
        cx.ensure(got == want, "immediately_dominated_by:set", || format!("root {}: immediately_dominated_by({}) wrong", root, a))?;
    }
    Ok(())
}

pub fn check_articulation<G>(cx: &mut Cx, abs: &Abs, g: G, ids: &[G::NodeId]) -> R
where
    G: IntoNodeReferences + IntoEdges + NodeIndexable + GraphProp + Copy,
    G::NodeWeight: Clone,
    G::EdgeWeight: Clone + PartialOrd,
    G::NodeId: Eq + Hash,
{
    let back = Back::new(g, ids);
    let (_, c0) = weak_components(abs);
    let mut want = vec![false; abs.n];
    for v in 0..abs.n {
        // delete v: relabel remaining
        let mut sub = Abs::new(abs.n, false);
        for &(a, b, w) in &abs.edges {
            if a != v && b != v {
                sub.add(a, b, w);
            }
        }
        let (_, c) = weak_components(&sub);
        // sub still counts v as an isolated node: components without v = c - 1
        want[v] = c - 1 > c0;
    }
    let got_set = algo::articulation_points::articulation_points(g);
    let mut got = vec![false; abs.n];
    for &x in got_set.iter() {
        got[back.abs(cx, g, x, "articulation_points")?] = true;
    }
    cx.ensure(got == want, "articulation_points:set", || {
        let g1: Vec<usize> = (0..abs.n).filter(|&v| got[v]).collect();
        let w1: Vec<usize> = (0..abs.n).filter(|&v| want[v]).collect();
        format!("got {:?}, nodes whose removal increases the component count: {:?}", g1, w1)
    })
}

pub fn case(cx: &mut Cx, rng: &mut Rng) -> R {
    let nmax = if cx.small { 6 } else if rng.chance(1, if cx.thorough { 40 } else { 150 }) { 40 } else if rng.chance(1, 10) { 13 } else { 8 };
    // dominators: directed flow graphs (reducible and irreducible), any root
    let mut o = GenOpts::new(nmax).directed(true);
    if rng.chance(1, 5) {
        o.directed = Some(false);
    }
    let abs = gen(rng, &o);
    cx.log(|| format!("dominators input: {}", abs.describe()));
    cx.count(&format!("family:{}", abs.family));
    let abs2 = gen(rng, &GenOpts::new(nmax).directed(false));
    cx.log(|| format!("articulation input: {}", abs2.describe()));
    cx.note_case(abs.hash() ^ abs2.hash().rotate_left(17), abs.n >= 3 && abs.m() >= 2 && abs2.n >= 3 && abs2.m() >= 2);
    with_enc!(one, &abs, rng, i64, |w| w,
        directed: [GraphU8, GraphShuf, GraphUsize, StableHoles, StableU8, GMap, Matrix, CsrT, ListT],
        undirected: [GraphU8, GraphShuf, GraphUsize, StableHoles, StableU8, GMap, Matrix, CsrT],
        |g, ids, tag| {
            cx.config = tag.name().to_string();
            cx.count(&format!("cell:dominators/{}", tag.name()));
            let _ = check_dominators(cx, rng, &abs, g, ids);
        });
    // articulation points: undirected multigraphs with loops
    with_enc!(one, &abs2, rng, i64, |w| w,
        directed: [GraphU8],
        undirected: [GraphU8, GraphShuf, GraphUsize, StableHoles, StableU8, GMap, Matrix, CsrT],
        |g, ids, tag| {
            cx.config = tag.name().to_string();
            cx.count(&format!("cell:articulation_points/{}", tag.name()));
            let _ = check_articulation(cx, &abs2, g, ids);
        });
    Ok(())
}
