//! C09 - SCC, connectivity, cycle detection, toposort, condensation against the
//! reachability-closure oracle.

use crate::abs::{gen, Abs, GenOpts};
use crate::corr::Back;
use crate::cx::{Cx, R};
use crate::oracle::*;
use crate::rng::Rng;
use petgraph::algo::{self, DfsSpace, TarjanScc};
use petgraph::visit::*;

/// Check a list of components against the mutual-reachability classes + ordering rule.
pub fn check_partition(
    cx: &mut Cx,
    abs: &Abs,
    cl: &[Vec<bool>],
    comps: &[Vec<usize>],
    what: &str,
) -> R {
    let n = abs.n;
    let mut comp_of = vec![usize::MAX; n];
    for (ci, c) in comps.iter().enumerate() {
        cx.ensure(!c.is_empty(), &format!("{}:empty-component", what), || {
            format!("component {} is empty", ci)
        })?;
        for &v in c {
            cx.ensure(comp_of[v] == usize::MAX, &format!("{}:node-twice", what), || {
                format!("node {} listed twice in {:?}", v, comps)
            })?;
            comp_of[v] = ci;
        }
    }
    cx.ensure(
        comp_of.iter().all(|&c| c != usize::MAX),
        &format!("{}:node-missing", what),
        || format!("some node is in no component: {:?}", comps),
    )?;
    for u in 0..n {
        for v in 0..n {
            let same = cl[u][v] && cl[v][u];
            cx.ensure(
                same == (comp_of[u] == comp_of[v]),
                &format!("{}:partition", what),
                || {
                    format!(
                        "nodes {} and {}: mutually reachable={}, but components {:?}",
                        u, v, same, comps
                    )
                },
            )?;
        }
    }
    // order: no component can reach a later one
    for i in 0..comps.len() {
        for j in (i + 1)..comps.len() {
            let (a, b) = (comps[i][0], comps[j][0]);
            cx.ensure(!cl[a][b], &format!("{}:order", what), || {
                format!(
                    "component {} {:?} reaches later component {} {:?}",
                    i, comps[i], j, comps[j]
                )
            })?;
        }
    }
    Ok(())
}

pub fn norm_comps<G: NodeIndexable + Copy>(
    cx: &mut Cx,
    g: G,
    back: &Back,
    comps: &[Vec<G::NodeId>],
    what: &str,
) -> R<Vec<Vec<usize>>> {
    let mut out = vec![];
    for c in comps {
        let mut v = vec![];
        for &id in c {
            v.push(back.abs(cx, g, id, what)?);
        }
        out.push(v);
    }
    Ok(out)
}

pub fn check_tarjan<G>(cx: &mut Cx, abs: &Abs, cl: &[Vec<bool>], g: G, ids: &[G::NodeId]) -> R
where
    G: IntoNodeIdentifiers + IntoNeighbors + NodeIndexable + Copy,
    G::NodeId: PartialEq,
{
    let back = Back::new(g, ids);
    let comps = algo::tarjan_scc(g);
    let nc = norm_comps(cx, g, &back, &comps, "tarjan_scc")?;
    check_partition(cx, abs, cl, &nc, "tarjan_scc")?;
    // TarjanScc::run fresh and reused (first on another graph state: run twice)
    let mut t = TarjanScc::new();
    let mut got: Vec<Vec<G::NodeId>> = vec![];
    t.run(g, |c| got.push(c.to_vec()));
    let nc2 = norm_comps(cx, g, &back, &got, "TarjanScc::run")?;
    cx.same(&nc2, &nc, "TarjanScc::run==tarjan_scc")?;
    let mut got2: Vec<Vec<G::NodeId>> = vec![];
    t.run(g, |c| got2.push(c.to_vec()));
    let nc3 = norm_comps(cx, g, &back, &got2, "TarjanScc::run(reused)")?;
    cx.same(&nc3, &nc, "TarjanScc::run(reused)==fresh")?;
    // node_component_index consistent with the partition
    let mut idx_of_comp: Vec<Option<usize>> = vec![None; nc.len()];
    for (ci, c) in nc.iter().enumerate() {
        for &v in c {
            let k = t.node_component_index(g, ids[v]);
            match idx_of_comp[ci] {
                None => idx_of_comp[ci] = Some(k),
                Some(k0) => cx.ensure(k0 == k, "node_component_index:same-within", || {
                    format!("component {:?}: indices {} and {}", c, k0, k)
                })?,
            }
        }
    }
    let mut ks: Vec<usize> = idx_of_comp.iter().map(|k| k.unwrap()).collect();
    let total = ks.len();
    ks.sort_unstable();
    ks.dedup();
    cx.ensure(ks.len() == total, "node_component_index:distinct-across", || {
        format!("component indices not distinct: {:?}", idx_of_comp)
    })?;
    Ok(())
}

pub fn check_kosaraju<G>(cx: &mut Cx, abs: &Abs, cl: &[Vec<bool>], g: G, ids: &[G::NodeId]) -> R
where
    G: IntoNeighborsDirected + Visitable + IntoNodeIdentifiers + NodeIndexable + Copy,
{
    let back = Back::new(g, ids);
    let comps = algo::kosaraju_scc(g);
    let nc = norm_comps(cx, g, &back, &comps, "kosaraju_scc")?;
    check_partition(cx, abs, cl, &nc, "kosaraju_scc")
}

pub fn check_toposort<G>(cx: &mut Cx, abs: &Abs, cl: &[Vec<bool>], g: G, ids: &[G::NodeId]) -> R
where
    G: IntoNeighborsDirected + Visitable + IntoNodeIdentifiers + NodeIndexable + Copy,
{
    let back = Back::new(g, ids);
    let cyclic = has_directed_cycle(abs, cl);
    let mut space = DfsSpace::new(g);
    let fresh = algo::toposort(g, None);
    for round in 0..3 {
        if round > 0 {
            // dirty the shared workspace first: path queries that return early leave state behind
            for a in 0..abs.n {
                let b = (a * 7 + round * 3 + 1) % abs.n;
                let got = algo::has_path_connecting(g, ids[a], ids[b], Some(&mut space));
                cx.ensure(got == cl[a][b], "has_path_connecting(space-shared-with-toposort)", || {
                    format!("({},{}) = {}, reachable = {}", a, b, got, cl[a][b])
                })?;
            }
        }
        let res = match round {
            0 => algo::toposort(g, None),
            _ => algo::toposort(g, Some(&mut space)),
        };
        let what = if round == 0 { "toposort" } else { "toposort(reused-space)" };
        if round > 0 {
            // deterministic algorithm: "a reused DfsSpace gives the same answers"
            let same = match (&res, &fresh) {
                (Ok(a), Ok(b)) => a.iter().map(|&x| g.to_index(x)).eq(b.iter().map(|&x| g.to_index(x))),
                (Err(a), Err(b)) => g.to_index(a.node_id()) == g.to_index(b.node_id()),
                _ => false,
            };
            cx.ensure(same, "toposort(reused-space)==fresh", || "answer with a reused DfsSpace differs from the fresh answer".to_string())?;
        }
        match res {
            Ok(order) => {
                cx.ensure(!cyclic, &format!("{}:ok-on-cyclic", what), || {
                    "toposort returned Ok on a graph with a directed cycle".to_string()
                })?;
                let mut pos = vec![usize::MAX; abs.n];
                for (i, &id) in order.iter().enumerate() {
                    let a = back.abs(cx, g, id, what)?;
                    cx.ensure(pos[a] == usize::MAX, &format!("{}:node-twice", what), || {
                        format!("node {} twice in order", a)
                    })?;
                    pos[a] = i;
                }
                cx.ensure(order.len() == abs.n, &format!("{}:len", what), || {
                    format!("order has {} nodes, graph {}", order.len(), abs.n)
                })?;
                for &(u, v, _) in &abs.edges {
                    cx.ensure(pos[u] < pos[v], &format!("{}:edge-backward", what), || {
                        format!("edge {}->{} not forward in order", u, v)
                    })?;
                }
            }
            Err(c) => {
                cx.ensure(cyclic, &format!("{}:err-on-acyclic", what), || {
                    "toposort returned Cycle on an acyclic graph".to_string()
                })?;
                let a = back.abs(cx, g, c.node_id(), what)?;
                let oc = on_cycle(abs, cl);
                cx.ensure(oc[a], &format!("{}:witness-not-on-cycle", what), || {
                    format!("Cycle names node {} which lies on no cycle", a)
                })?;
            }
        }
    }
    Ok(())
}

pub fn check_cyclic_directed<G>(cx: &mut Cx, abs: &Abs, cl: &[Vec<bool>], g: G) -> R
where
    G: IntoNodeIdentifiers + IntoNeighbors + Visitable + Copy,
{
    let want = has_directed_cycle(abs, cl);
    let got = algo::is_cyclic_directed(g);
    cx.same(&got, &want, "is_cyclic_directed")
}

pub fn check_cyclic_undirected<G>(cx: &mut Cx, abs: &Abs, g: G) -> R
where
    G: NodeIndexable + IntoEdgeReferences + Copy,
{
    let (_, c) = weak_components(abs);
    // a multigraph (direction ignored) has a cycle iff m > n - c
    let want = abs.m() + c > abs.n;
    let got = algo::is_cyclic_undirected(g);
    cx.same(&got, &want, "is_cyclic_undirected")
}

pub fn check_connected_components<G>(cx: &mut Cx, abs: &Abs, g: G) -> R
where
    G: NodeCompactIndexable + IntoEdgeReferences + Copy,
{
    let (_, c) = weak_components(abs);
    let got = algo::connected_components(g);
    cx.same(&got, &c, "connected_components")
}

pub fn check_has_path<G>(cx: &mut Cx, abs: &Abs, cl: &[Vec<bool>], g: G, ids: &[G::NodeId], other_n: usize) -> R
where
    G: IntoNeighbors + Visitable + Copy,
    G::Map: Default,
{
    let mut space = DfsSpace::new(g);
    // a workspace that was never sized for this graph (reset_map has to grow it)
    let mut space0: DfsSpace<G::NodeId, G::Map> = DfsSpace::default();
    let _ = other_n;
    for a in 0..abs.n {
        let b0 = (a * 3 + 1) % abs.n;
        let r0 = algo::has_path_connecting(g, ids[a], ids[b0], Some(&mut space0));
        cx.ensure(r0 == cl[a][b0], "has_path_connecting(default-space)", || {
            format!("with DfsSpace::default() ({},{}) = {}, reachable = {}", a, b0, r0, cl[a][b0])
        })?;
    }
    for a in 0..abs.n {
        for b in 0..abs.n {
            let fresh = algo::has_path_connecting(g, ids[a], ids[b], None);
            cx.ensure(fresh == cl[a][b], "has_path_connecting", || {
                format!("has_path_connecting({},{}) = {}, reachable = {}", a, b, fresh, cl[a][b])
            })?;
            let reused = algo::has_path_connecting(g, ids[a], ids[b], Some(&mut space));
            cx.ensure(reused == cl[a][b], "has_path_connecting(reused-space)", || {
                format!("with reused DfsSpace ({},{}) = {}, reachable = {}", a, b, reused, cl[a][b])
            })?;
        }
    }
    Ok(())
}

/// 2-colourability of the component of s (undirected view)
pub fn bipartite_ref(abs: &Abs, s: usize) -> bool {
    let adj = abs.und_adj();
    let mut col = vec![2u8; abs.n];
    col[s] = 0;
    let mut st = vec![s];
    while let Some(u) = st.pop() {
        for &(v, _) in &adj[u] {
            if col[v] == 2 {
                col[v] = 1 - col[u];
                st.push(v);
            } else if col[v] == col[u] {
                return false;
            }
        }
    }
    true
}

pub fn check_bipartite<G>(cx: &mut Cx, abs: &Abs, g: G, ids: &[G::NodeId]) -> R
where
    G: GraphRef + Visitable + IntoNeighbors,
    G::NodeId: core::fmt::Debug,
{
    for s in 0..abs.n {
        let want = bipartite_ref(abs, s);
        let got = algo::is_bipartite_undirected(g, ids[s]);
        cx.ensure(got == want, "is_bipartite_undirected", || {
            format!("start {}: got {}, 2-colourable = {}", s, got, want)
        })?;
    }
    Ok(())
}

pub fn check_condensation(cx: &mut Cx, abs: &Abs, cl: &[Vec<bool>]) -> R {
    use petgraph::graph::Graph;
    let lab = scc_labels(abs, cl);
    macro_rules! go {
        ($Ty:ty) => {{
            for make_acyclic in [false, true] {
                let mut g = Graph::<u32, i64, $Ty, u32>::with_capacity(0, 0);
                let ids: Vec<_> = (0..abs.n).map(|i| g.add_node(i as u32)).collect();
                for &(u, v, w) in &abs.edges {
                    g.add_edge(ids[u], ids[v], w);
                }
                let c = algo::condensation(g, make_acyclic);
                let what = if make_acyclic { "condensation(acyclic)" } else { "condensation" };
                // members
                let mut comp_of = vec![usize::MAX; abs.n];
                for ci in c.node_indices() {
                    let members = &c[ci];
                    cx.ensure(!members.is_empty(), &format!("{}:empty-node", what), || "empty component node".into())?;
                    for &m in members {
                        let m = m as usize;
                        cx.ensure(comp_of[m] == usize::MAX, &format!("{}:member-twice", what), || format!("node {} in two components", m))?;
                        comp_of[m] = ci.index();
                    }
                }
                cx.ensure(comp_of.iter().all(|&x| x != usize::MAX), &format!("{}:member-missing", what), || "a node is in no component".into())?;
                for u in 0..abs.n {
                    for v in 0..abs.n {
                        cx.ensure((lab[u] == lab[v]) == (comp_of[u] == comp_of[v]), &format!("{}:partition", what), || {
                            format!("nodes {},{} same scc={} but condensed nodes {} {}", u, v, lab[u] == lab[v], comp_of[u], comp_of[v])
                        })?;
                    }
                }
                let und = !abs.directed;
                let key = |a: usize, b: usize| if und && a > b { (b, a) } else { (a, b) };
                let mut got: Vec<(usize, usize, i64)> = c
                    .edge_references()
                    .map(|e| { let k = key(e.source().index(), e.target().index()); (k.0, k.1, *e.weight()) })
                    .collect();
                got.sort();
                if !make_acyclic {
                    let mut want: Vec<(usize, usize, i64)> = abs.edges.iter().map(|&(u, v, w)| { let k = key(comp_of[u], comp_of[v]); (k.0, k.1, w) }).collect();
                    want.sort();
                    cx.ensure(got == want, &format!("{}:edges", what), || format!("condensed edges {:?}, mapped original edges {:?}", got, want))?;
                } else {
                    // simple, loop-free, exactly the set of inter-component pairs, weight one of the contributors
                    let mut pairs: Vec<(usize, usize)> = got.iter().map(|e| (e.0, e.1)).collect();
                    let before = pairs.len();
                    pairs.dedup();
                    cx.ensure(pairs.len() == before, &format!("{}:parallel", what), || format!("parallel edges in {:?}", got))?;
                    let mut want: Vec<(usize, usize)> = abs.edges.iter().filter(|e| comp_of[e.0] != comp_of[e.1]).map(|&(u, v, _)| key(comp_of[u], comp_of[v])).collect();
                    want.sort();
                    want.dedup();
                    cx.ensure(pairs == want, &format!("{}:edge-set", what), || format!("condensed pairs {:?}, want {:?}", pairs, want))?;
                    for &(a, b, w) in &got {
                        let ok = abs.edges.iter().any(|&(u, v, ww)| ww == w && key(comp_of[u], comp_of[v]) == (a, b));
                        cx.ensure(ok, &format!("{}:weight", what), || format!("edge {}-{} weight {} comes from no original edge", a, b, w))?;
                    }
                    if abs.directed {
                        cx.ensure(!algo::is_cyclic_directed(&c), &format!("{}:cyclic", what), || "acyclic condensation has a cycle".into())?;
                    }
                }
            }
        }};
    }
    if abs.directed {
        go!(petgraph::Directed)
    } else {
        go!(petgraph::Undirected)
    }
    Ok(())
}

/// One DfsSpace reused across two different Graphs (different sizes) and across both algorithms.
pub fn check_space_reuse_across_graphs(cx: &mut Cx, a1: &Abs, a2: &Abs) -> R {
    use petgraph::graph::DiGraph;
    let build = |a: &Abs| {
        let mut g = DiGraph::<u32, i64>::new();
        let ids: Vec<_> = (0..a.n).map(|i| g.add_node(i as u32)).collect();
        for &(u, v, w) in &a.edges {
            g.add_edge(ids[u], ids[v], w);
        }
        (g, ids)
    };
    let (g1, ids1) = build(a1);
    let (g2, ids2) = build(a2);
    let (cl1, cl2) = (closure(a1), closure(a2));
    let mut space = DfsSpace::new(&g1);
    for round in 0..2 {
        for (g, ids, a, cl) in [(&g1, &ids1, a1, &cl1), (&g2, &ids2, a2, &cl2)] {
            let cyc = has_directed_cycle(a, cl);
            match algo::toposort(g, Some(&mut space)) {
                Ok(order) => {
                    cx.ensure(!cyc, "toposort(space-reused-across-graphs):ok-on-cyclic", || "Ok on cyclic graph".into())?;
                    let mut pos = vec![usize::MAX; a.n];
                    for (i, id) in order.iter().enumerate() {
                        cx.ensure(id.index() < a.n && pos[id.index()] == usize::MAX, "toposort(space-reused-across-graphs):bad-node", || {
                            format!("order {:?} has a repeated or foreign node", order)
                        })?;
                        pos[id.index()] = i;
                    }
                    cx.ensure(order.len() == a.n, "toposort(space-reused-across-graphs):len", || format!("{} of {} nodes", order.len(), a.n))?;
                    for &(u, v, _) in &a.edges {
                        cx.ensure(pos[u] < pos[v], "toposort(space-reused-across-graphs):edge-backward", || format!("edge {}->{} backward", u, v))?;
                    }
                }
                Err(c) => {
                    cx.ensure(cyc, "toposort(space-reused-across-graphs):err-on-acyclic", || "Cycle on acyclic graph".into())?;
                    let oc = on_cycle(a, cl);
                    cx.ensure(c.node_id().index() < a.n && oc[c.node_id().index()], "toposort(space-reused-across-graphs):witness", || {
                        format!("witness {:?} not on a cycle", c.node_id())
                    })?;
                }
            }
            for x in 0..a.n {
                let y = (x * 5 + round + 2) % a.n;
                let got = algo::has_path_connecting(g, ids[x], ids[y], Some(&mut space));
                cx.ensure(got == cl[x][y], "has_path_connecting(space-reused-across-graphs)", || {
                    format!("({},{}) = {}, reachable = {}", x, y, got, cl[x][y])
                })?;
            }
        }
    }
    Ok(())
}

pub fn case(cx: &mut Cx, rng: &mut Rng) -> R {
    let nmax = if cx.small { 6 } else if rng.chance(1, if cx.thorough { 40 } else { 150 }) { 70 } else if rng.chance(1, 10) { 14 } else { 9 };
    let o = GenOpts::new(nmax);
    let abs = gen(rng, &o);
    cx.log(|| abs.describe());
    let cl = closure(&abs);
    // cross-check the two reachability oracles against each other (trusted-base hygiene)
    for s in 0..abs.n {
        let h = hops_from(&abs, &[s]);
        for t in 0..abs.n {
            assert_eq!(h[t].is_some(), cl[s][t], "oracle self-check");
        }
    }
    let lab = scc_labels(&abs, &cl);
    let ncomp = { let mut l = lab.clone(); l.sort_unstable(); l.dedup(); l.len() };
    cx.note_case(abs.hash(), abs.n >= 3 && abs.m() >= 2);
    if ncomp >= 2 && ncomp < abs.n { cx.count("feature:multi-node-and-multi-component"); }
    if has_directed_cycle(&abs, &cl) { cx.count("feature:cyclic"); }
    cx.count(&format!("family:{}", abs.family));

    with_enc!(one, &abs, rng, i64, |w| w,
        directed: [GraphU8, GraphShuf, GraphUsize, StableHoles, StableU8, GMap, Matrix, CsrT, ListT],
        undirected: [GraphU8, GraphShuf, GraphUsize, StableHoles, StableU8, GMap, Matrix, CsrT],
        |g, ids, tag| {
            cx.config = tag.name().to_string();
            cx.count(&format!("cell:tarjan/{}", tag.name()));
            let _ = check_tarjan(cx, &abs, &cl, g, ids);
            let _ = check_has_path(cx, &abs, &cl, g, ids, 0);
            let _ = check_cyclic_undirected(cx, &abs, g);
            if abs.directed {
                let _ = check_cyclic_directed(cx, &abs, &cl, g);
            } else {
                let _ = check_bipartite(cx, &abs, g, ids);
            }
        });
    with_enc!(one, &abs, rng, i64, |w| w,
        directed: [GraphU8, GraphShuf, GraphUsize, StableHoles, StableU8, GMap, Matrix],
        undirected: [GraphU8, GraphShuf, GraphUsize, StableHoles, StableU8, GMap],
        |g, ids, tag| {
            cx.config = tag.name().to_string();
            cx.count(&format!("cell:kosaraju+toposort/{}", tag.name()));
            let _ = check_kosaraju(cx, &abs, &cl, g, ids);
            if abs.directed {
                let _ = check_toposort(cx, &abs, &cl, g, ids);
            }
        });
    with_enc!(one, &abs, rng, i64, |w| w,
        directed: [GraphU8, GraphShuf, GraphUsize, GMap, CsrT, ListT],
        undirected: [GraphU8, GraphShuf, GraphUsize, GMap, CsrT],
        |g, _ids, tag| {
            cx.config = tag.name().to_string();
            cx.count(&format!("cell:connected_components/{}", tag.name()));
            let _ = check_connected_components(cx, &abs, g);
        });
    cx.config = "Graph<u32>".to_string();
    let _ = check_condensation(cx, &abs, &cl);
    if abs.directed {
        let o2 = GenOpts::new(7).directed(true);
        let abs2 = gen(rng, &o2);
        cx.log(|| format!("second graph for workspace reuse: {}", abs2.describe()));
        let _ = check_space_reuse_across_graphs(cx, &abs, &abs2);
    }
    Ok(())
}
