//! C03 - `GraphMap` under operation histories against a simple-graph model keyed by node value.

use crate::cx::{catch, Cx, R};
use crate::rng::Rng;
use petgraph::data::Build;
use petgraph::graphmap::{GraphMap, NodeTrait};
use petgraph::visit::{EdgeIndexable, EdgeRef, IntoEdgeReferences, IntoEdges, IntoEdgesDirected, NodeIndexable};
use petgraph::Direction::{Incoming, Outgoing};
use petgraph::EdgeType;
use std::collections::{BTreeMap, BTreeSet};
use std::hash::{BuildHasher, Hasher};

/// every key collides
#[derive(Default, Clone, Copy)]
pub struct ConstHash;
pub struct ConstHasher;
impl Hasher for ConstHasher {
    fn finish(&self) -> u64 {
        7
    }
    fn write(&mut self, _: &[u8]) {}
}
impl BuildHasher for ConstHash {
    type Hasher = ConstHasher;
    fn build_hasher(&self) -> ConstHasher {
        ConstHasher
    }
}

/// universe of node values, ascending (so index order == value order)
pub trait Universe: NodeTrait + std::fmt::Debug + 'static {
    const NAME: &'static str;
    fn universe() -> Vec<Self>;
}
impl Universe for i32 {
    const NAME: &'static str = "i32";
    fn universe() -> Vec<i32> {
        vec![i32::MIN, -20, -7, -1, 0, 1, 2, 5, 9, 100, 65536, i32::MAX]
    }
}
impl Universe for (u8, u8) {
    const NAME: &'static str = "(u8,u8)";
    fn universe() -> Vec<(u8, u8)> {
        vec![(0, 0), (0, 1), (0, 255), (1, 0), (1, 1), (2, 7), (7, 2), (9, 9), (100, 0), (200, 200), (255, 0), (255, 255)]
    }
}
impl Universe for &'static str {
    const NAME: &'static str = "&str";
    fn universe() -> Vec<&'static str> {
        vec!["", "A", "a", "aa", "ab", "b", "ba", "node", "z", "zz", "é", "𝄞"]
    }
}

struct SM {
    directed: bool,
    nodes: BTreeSet<usize>,
    edges: BTreeMap<(usize, usize), u32>,
}
impl SM {
    fn key(&self, a: usize, b: usize) -> (usize, usize) {
        if self.directed || a <= b { (a, b) } else { (b, a) }
    }
    fn out(&self, a: usize) -> Vec<(usize, u32)> {
        // directed: successors; undirected: all neighbours (self-loop once)
        let mut v = vec![];
        for (&(x, y), &w) in &self.edges {
            if x == a {
                v.push((y, w));
            } else if !self.directed && y == a {
                v.push((x, w));
            }
        }
        v.sort();
        v
    }
    fn inc(&self, a: usize) -> Vec<(usize, u32)> {
        if !self.directed {
            return self.out(a);
        }
        let mut v: Vec<(usize, u32)> = self.edges.iter().filter(|(&(_, y), _)| y == a).map(|(&(x, _), &w)| (x, w)).collect();
        v.sort();
        v
    }
}

fn sweep<N: Universe, Ty: EdgeType, S: BuildHasher>(cx: &mut Cx, g: &GraphMap<N, u32, Ty, S>, m: &SM, u: &[N]) -> R {
    let idx = |n: N| u.iter().position(|&x| x == n);
    cx.ensure(g.node_count() == m.nodes.len(), "GraphMap:node_count", || format!("{} vs model {}", g.node_count(), m.nodes.len()))?;
    cx.ensure(g.edge_count() == m.edges.len(), "GraphMap:edge_count", || format!("{} vs model {}", g.edge_count(), m.edges.len()))?;
    cx.ensure(g.is_directed() == m.directed, "GraphMap:is_directed", || "wrong".into())?;
    // nodes(): each once
    let mut seen = BTreeSet::new();
    for n in g.nodes().take(u.len() + 2) {
        let i = idx(n);
        cx.ensure(i.is_some() && seen.insert(i.unwrap()), "GraphMap:nodes()-alien-or-twice", || format!("nodes() yields {:?} twice or unknown", n))?;
    }
    cx.ensure(seen == m.nodes, "GraphMap:nodes()", || format!("nodes() = {:?}, model {:?}", seen, m.nodes))?;
    for a in 0..u.len() {
        let live = m.nodes.contains(&a);
        cx.ensure(g.contains_node(u[a]) == live, "GraphMap:contains_node", || format!("contains_node({:?}) = {}, model {}", u[a], !live, live))?;
        let want_out = if live { m.out(a) } else { vec![] };
        let want_in = if live { m.inc(a) } else { vec![] };
        let cap = u.len() * 2 + 2;
        let mut got: Vec<usize> = g.neighbors(u[a]).take(cap).filter_map(idx).collect();
        got.sort();
        cx.ensure(got == want_out.iter().map(|x| x.0).collect::<Vec<_>>(), "GraphMap:neighbors", || format!("neighbors({:?}) = {:?}, model {:?}", u[a], got, want_out))?;
        for (dir, want) in [(Outgoing, &want_out), (Incoming, &want_in)] {
            let mut got: Vec<usize> = g.neighbors_directed(u[a], dir).take(cap).filter_map(idx).collect();
            got.sort();
            cx.ensure(got == want.iter().map(|x| x.0).collect::<Vec<_>>(), "GraphMap:neighbors_directed", || format!("neighbors_directed({:?}, {:?}) = {:?}, model {:?}", u[a], dir, got, want))?;
        }
        // edges(a): the queried node first
        let mut got: Vec<(usize, usize, u32)> = g.edges(u[a]).take(cap).map(|(x, y, w)| (idx(x).unwrap_or(99), idx(y).unwrap_or(99), *w)).collect();
        got.sort();
        let want: Vec<(usize, usize, u32)> = want_out.iter().map(|&(b, w)| (a, b, w)).collect();
        cx.ensure(got == want, "GraphMap:edges", || format!("edges({:?}) = {:?}, model {:?} (queried node must be the source)", u[a], got, want))?;
        let mut got: Vec<(usize, usize, u32)> = g.edges_directed(u[a], Outgoing).take(cap).map(|(x, y, w)| (idx(x).unwrap_or(99), idx(y).unwrap_or(99), *w)).collect();
        got.sort();
        cx.ensure(got == want, "GraphMap:edges_directed(Outgoing)", || format!("edges_directed({:?}, Outgoing) = {:?}, model {:?}", u[a], got, want))?;
        let mut got: Vec<(usize, usize, u32)> = g.edges_directed(u[a], Incoming).take(cap).map(|(x, y, w)| (idx(x).unwrap_or(99), idx(y).unwrap_or(99), *w)).collect();
        got.sort();
        let mut want_i: Vec<(usize, usize, u32)> = want_in.iter().map(|&(b, w)| (b, a, w)).collect();
        want_i.sort();
        cx.ensure(got == want_i, "GraphMap:edges_directed(Incoming)", || format!("edges_directed({:?}, Incoming) = {:?}, model {:?} (queried node must be the target)", u[a], got, want_i))?;
        // the same through the visit traits, with edge ids resolved through EdgeIndexable
        let mut got: Vec<(usize, usize, u32)> = vec![];
        for e in IntoEdges::edges(g, u[a]).take(cap) {
            got.push((idx(e.source()).unwrap_or(99), idx(e.target()).unwrap_or(99), *e.weight()));
            let r = catch(|| EdgeIndexable::to_index(g, e.id()));
            match r {
                Ok(i) => {
                    cx.ensure(i < g.edge_count(), "GraphMap:EdgeIndexable::to_index-out-of-range", || format!("to_index({:?}) = {} with {} edges", e.id(), i, g.edge_count()))?;
                    let back = EdgeIndexable::from_index(g, i);
                    let (bx, by) = (idx(back.0).unwrap_or(99), idx(back.1).unwrap_or(99));
                    let (sx, sy) = (idx(e.source()).unwrap_or(99), idx(e.target()).unwrap_or(99));
                    cx.ensure(m.key(bx, by) == m.key(sx, sy), "GraphMap:EdgeIndexable-roundtrip", || format!("from_index(to_index({:?})) = {:?}", e.id(), back))?;
                }
                Err(p) => cx.ensure(false, "GraphMap:EdgeIndexable::to_index-panics-on-yielded-id", || format!("to_index({:?}) for an id yielded by edges({:?}) panicked: {}", e.id(), u[a], p.short()))?,
            }
        }
        got.sort();
        cx.ensure(got == want, "GraphMap:IntoEdges::edges", || format!("{:?} vs model {:?}", got, want))?;
        let mut got: Vec<(usize, usize, u32)> = IntoEdgesDirected::edges_directed(g, u[a], Incoming).take(cap).map(|e| (idx(e.source()).unwrap_or(99), idx(e.target()).unwrap_or(99), *e.weight())).collect();
        got.sort();
        cx.ensure(got == want_i, "GraphMap:IntoEdgesDirected(Incoming)", || format!("{:?} vs model {:?}", got, want_i))?;
        for b in 0..u.len() {
            let k = m.key(a, b);
            let want = m.edges.get(&k).copied();
            cx.ensure(g.contains_edge(u[a], u[b]) == want.is_some(), "GraphMap:contains_edge", || format!("contains_edge({:?},{:?}), model {:?}", u[a], u[b], want))?;
            cx.ensure(g.edge_weight(u[a], u[b]).copied() == want, "GraphMap:edge_weight", || format!("edge_weight({:?},{:?}) = {:?}, model {:?}", u[a], u[b], g.edge_weight(u[a], u[b]), want))?;
            if let Some(w) = want {
                cx.ensure(g[(u[a], u[b])] == w, "GraphMap:Index", || "g[(a,b)] wrong".into())?;
            }
        }
    }
    // all_edges / edge_references
    let mut got: Vec<((usize, usize), u32)> = g.all_edges().take(m.edges.len() + 2).map(|(x, y, w)| (m.key(idx(x).unwrap_or(99), idx(y).unwrap_or(99)), *w)).collect();
    got.sort();
    let want: Vec<((usize, usize), u32)> = m.edges.iter().map(|(&k, &w)| (k, w)).collect();
    cx.ensure(got == want, "GraphMap:all_edges", || format!("all_edges {:?}, model {:?}", got, want))?;
    let mut got: Vec<((usize, usize), u32)> = g.edge_references().take(m.edges.len() + 2).map(|e| (m.key(idx(e.source()).unwrap_or(99), idx(e.target()).unwrap_or(99)), *e.weight())).collect();
    got.sort();
    cx.ensure(got == want, "GraphMap:edge_references", || format!("{:?}, model {:?}", got, want))?;
    // the rest of the Iterator contract (size_hint, count, last, nth, fold, next_back) of every iterator handed out
    {
        use crate::iterck::{adapters, double_ended};
        use petgraph::visit::{IntoNodeIdentifiers, IntoNodeReferences};
        let capn = u.len() + 2;
        let cape = m.edges.len() + 2;
        let salt = m.edges.len() * 7 + m.nodes.len() * 3 + m.edges.values().next().map_or(0, |&w| w as usize);
        let e3 = |(x, y, w): (N, N, &u32)| (idx(x), idx(y), *w);
        adapters(cx, || g.nodes(), idx, capn, "GraphMap:nodes", salt)?;
        double_ended(cx, || g.nodes(), idx, capn, "GraphMap:nodes", salt)?;
        adapters(cx, || g.node_identifiers(), idx, capn, "GraphMap:node_identifiers", salt)?;
        adapters(cx, || g.node_references(), |(n, _)| idx(n), capn, "GraphMap:node_references", salt)?;
        adapters(cx, || g.all_edges(), e3, cape, "GraphMap:all_edges", salt)?;
        double_ended(cx, || g.all_edges(), e3, cape, "GraphMap:all_edges", salt + 1)?;
        adapters(cx, || g.edge_references(), e3, cape, "GraphMap:edge_references", salt)?;
        for a in 0..u.len() {
            if (a + salt) % 2 == 0 {
                let cap = u.len() * 2 + 2;
                adapters(cx, || g.neighbors(u[a]), idx, cap, "GraphMap:neighbors", salt)?;
                adapters(cx, || g.neighbors_directed(u[a], Incoming), idx, cap, "GraphMap:neighbors_directed", salt)?;
                adapters(cx, || g.edges(u[a]), e3, cap, "GraphMap:edges", salt)?;
                adapters(cx, || g.edges_directed(u[a], Incoming), e3, cap, "GraphMap:edges_directed(Incoming)", salt)?;
                adapters(cx, || g.edges_directed(u[a], Outgoing), e3, cap, "GraphMap:edges_directed(Outgoing)", salt)?;
            }
        }
    }
    // compact numbering
    let n = m.nodes.len();
    cx.ensure(NodeIndexable::node_bound(g) == n && EdgeIndexable::edge_bound(g) == m.edges.len(), "GraphMap:bounds", || "node_bound/edge_bound != counts".into())?;
    let mut used = vec![false; n];
    for &a in &m.nodes {
        let i = NodeIndexable::to_index(g, u[a]);
        cx.ensure(i < n && !used[i], "GraphMap:NodeIndexable::to_index-not-a-bijection", || format!("to_index({:?}) = {}", u[a], i))?;
        used[i] = true;
        cx.ensure(NodeIndexable::from_index(g, i) == u[a], "GraphMap:NodeIndexable-roundtrip", || format!("from_index({}) != {:?}", i, u[a]))?;
    }
    let mut used = vec![false; m.edges.len()];
    for (&(a, b), _) in &m.edges {
        let i = EdgeIndexable::to_index(g, (u[a], u[b]));
        cx.ensure(i < used.len() && !used[i], "GraphMap:EdgeIndexable::to_index-not-a-bijection", || format!("to_index(({:?},{:?})) = {}", u[a], u[b], i))?;
        used[i] = true;
    }
    Ok(())
}

fn check_conversions<N: Universe, Ty: EdgeType + Clone, S: BuildHasher + Default + Clone>(cx: &mut Cx, g: &GraphMap<N, u32, Ty, S>, m: &SM, u: &[N], rng: &mut Rng) -> R {
    let idx = |n: N| u.iter().position(|&x| x == n).unwrap_or(99);
    macro_rules! via {
        ($Ix:ty) => {{
            let gr = g.clone().into_graph::<$Ix>();
            let mut ns: Vec<usize> = gr.node_weights().map(|&n| idx(n)).collect();
            ns.sort();
            cx.ensure(ns == m.nodes.iter().copied().collect::<Vec<_>>(), "GraphMap:into_graph-nodes", || format!("{:?} vs {:?}", ns, m.nodes))?;
            let mut es: Vec<((usize, usize), u32)> = gr.edge_references().map(|e| (m.key(idx(gr[e.source()]), idx(gr[e.target()])), *e.weight())).collect();
            es.sort();
            let want: Vec<((usize, usize), u32)> = m.edges.iter().map(|(&k, &w)| (k, w)).collect();
            cx.ensure(es == want, "GraphMap:into_graph-edges", || format!("{:?} vs {:?}", es, want))?;
            let back: GraphMap<N, u32, Ty, S> = GraphMap::from_graph(gr);
            sweep(cx, &back, m, u)?;
        }};
    }
    if m.nodes.len() < 200 && rng.coin() {
        via!(u8)
    } else {
        via!(u32)
    }
    Ok(())
}

fn history<N: Universe, Ty: EdgeType + Clone, S: BuildHasher + Default + Clone>(cx: &mut Cx, rng: &mut Rng, hname: &str) -> R {
    let directed = Ty::is_directed();
    cx.config = format!("GraphMap<{},{},{}>", N::NAME, if directed { "Directed" } else { "Undirected" }, hname);
    let u = N::universe();
    let k = if cx.small { 5 } else { rng.urange(3, u.len()) };
    let mut m = SM { directed, nodes: BTreeSet::new(), edges: BTreeMap::new() };
    let mut next_w = 1u32;
    let mut g: GraphMap<N, u32, Ty, S> = if rng.chance(1, 4) {
        let mut es = vec![];
        for _ in 0..rng.below(8) {
            next_w += 1;
            es.push((rng.below(k), rng.below(k), next_w));
        }
        cx.log(|| format!("from_edges({:?})", es));
        for &(a, b, w) in &es {
            m.nodes.insert(a);
            m.nodes.insert(b);
            m.edges.insert(m.key(a, b), w);
        }
        if rng.coin() {
            GraphMap::from_edges(es.iter().map(|&(a, b, w)| (u[a], u[b], w)))
        } else {
            es.iter().map(|&(a, b, w)| (u[a], u[b], w)).collect()
        }
    } else {
        GraphMap::with_capacity(rng.below(4), rng.below(4))
    };
    sweep(cx, &g, &m, &u)?;
    let nops = if cx.small { rng.urange(8, 40) } else { rng.urange(20, 300) };
    let mut kinds = crate::cx::H::new();
    let mut removals = 0;
    for step in 0..nops {
        cx.ops += 1;
        let op = rng.weighted(&[10, 40, 12, 14, 6, 1, 4, 3, 3, 2]);
        kinds.add(op as u64);
        match op {
            0 => {
                let a = rng.below(k);
                cx.log(|| format!("#{} add_node({:?})", step, u[a]));
                let r = if rng.coin() { g.add_node(u[a]) } else { Build::add_node(&mut g, u[a]) };
                cx.ensure(r == u[a], "GraphMap:add_node-result", || format!("returned {:?}", r))?;
                m.nodes.insert(a);
            }
            1 => {
                // bias: reciprocal pairs, self-loops, re-adding
                let (a, b) = match rng.below(5) {
                    0 => { let a = rng.below(k); (a, a) }
                    1 if !m.edges.is_empty() => { let ks: Vec<_> = m.edges.keys().copied().collect(); let (x, y) = ks[rng.below(ks.len())]; (y, x) }
                    _ => (rng.below(k), rng.below(k)),
                };
                next_w += 1;
                let w = next_w;
                let key = m.key(a, b);
                let old = m.edges.get(&key).copied();
                match rng.below(3) {
                    0 => {
                        cx.log(|| format!("#{} add_edge({:?}, {:?}, w{})", step, u[a], u[b], w));
                        let r = g.add_edge(u[a], u[b], w);
                        cx.ensure(r == old, "GraphMap:add_edge-result", || format!("add_edge({:?},{:?}) = {:?}, previous weight {:?}", u[a], u[b], r, old))?;
                        m.edges.insert(key, w);
                    }
                    1 => {
                        cx.log(|| format!("#{} Build::add_edge({:?}, {:?}, w{})", step, u[a], u[b], w));
                        let r = Build::add_edge(&mut g, u[a], u[b], w);
                        cx.ensure(r.is_some() == old.is_none(), "GraphMap:Build::add_edge-result", || format!("= {:?}, edge existed: {}", r, old.is_some()))?;
                        if old.is_none() {
                            m.edges.insert(key, w);
                        }
                    }
                    _ => {
                        cx.log(|| format!("#{} Build::update_edge({:?}, {:?}, w{})", step, u[a], u[b], w));
                        let _ = Build::update_edge(&mut g, u[a], u[b], w);
                        m.edges.insert(key, w);
                    }
                }
                m.nodes.insert(a);
                m.nodes.insert(b);
            }
            2 => {
                // remove an existing edge (either orientation when undirected) or an absent one
                let (a, b) = if !m.edges.is_empty() && rng.chance(3, 4) {
                    let ks: Vec<_> = m.edges.keys().copied().collect();
                    let (x, y) = ks[rng.below(ks.len())];
                    if !directed && rng.coin() { (y, x) } else { (x, y) }
                } else {
                    (rng.below(u.len()), rng.below(u.len()))
                };
                cx.log(|| format!("#{} remove_edge({:?}, {:?})", step, u[a], u[b]));
                let want = m.edges.remove(&m.key(a, b));
                let r = g.remove_edge(u[a], u[b]);
                cx.ensure(r == want, "GraphMap:remove_edge-result", || format!("remove_edge({:?},{:?}) = {:?}, model {:?}", u[a], u[b], r, want))?;
                if want.is_some() {
                    removals += 1;
                }
            }
            3 => {
                let a = if rng.chance(4, 5) && !m.nodes.is_empty() {
                    // prefer hubs
                    let ns: Vec<usize> = m.nodes.iter().copied().collect();
                    *ns.iter().max_by_key(|&&x| m.out(x).len() + m.inc(x).len() + rng.below(3)).unwrap()
                } else {
                    rng.below(u.len())
                };
                cx.log(|| format!("#{} remove_node({:?})", step, u[a]));
                let want = m.nodes.remove(&a);
                let r = g.remove_node(u[a]);
                cx.ensure(r == want, "GraphMap:remove_node-result", || format!("remove_node({:?}) = {}, model {}", u[a], r, want))?;
                let gone: Vec<(usize, usize)> = m.edges.keys().copied().filter(|&(x, y)| x == a || y == a).collect();
                for key in gone {
                    m.edges.remove(&key);
                }
                if want {
                    removals += 1;
                }
            }
            4 => {
                if m.edges.is_empty() {
                    continue;
                }
                let ks: Vec<_> = m.edges.keys().copied().collect();
                let (x, y) = ks[rng.below(ks.len())];
                let (a, b) = if !directed && rng.coin() { (y, x) } else { (x, y) };
                next_w += 1;
                let w = next_w;
                cx.log(|| format!("#{} weight of ({:?}, {:?}) := w{}", step, u[a], u[b], w));
                match rng.below(3) {
                    0 => *g.edge_weight_mut(u[a], u[b]).unwrap() = w,
                    1 => g[(u[a], u[b])] = w,
                    _ => {
                        for (p, q, ww) in g.all_edges_mut() {
                            if (p == u[x] && q == u[y]) || (p == u[y] && q == u[x] && !directed) {
                                *ww = w;
                            }
                        }
                    }
                }
                m.edges.insert((x, y), w);
                cx.ensure(g.edge_weight_mut(u[u.len() - 1], u[u.len() - 1]).is_none() || m.edges.contains_key(&(u.len() - 1, u.len() - 1)), "GraphMap:edge_weight_mut-absent-some", || "Some for absent edge".into())?;
            }
            5 => {
                cx.log(|| format!("#{} clear()", step));
                g.clear();
                m.nodes.clear();
                m.edges.clear();
            }
            6 => {
                let mut es = vec![];
                for _ in 0..rng.urange(1, 4) {
                    next_w += 1;
                    es.push((rng.below(k), rng.below(k), next_w));
                }
                cx.log(|| format!("#{} extend({:?})", step, es));
                g.extend(es.iter().map(|&(a, b, w)| (u[a], u[b], w)));
                for &(a, b, w) in &es {
                    m.nodes.insert(a);
                    m.nodes.insert(b);
                    m.edges.insert(m.key(a, b), w);
                }
            }
            7 => {
                cx.log(|| format!("#{} clone", step));
                g = g.clone();
            }
            8 => {
                cx.log(|| format!("#{} into_graph / from_graph", step));
                check_conversions(cx, &g, &m, &u, rng)?;
            }
            _ => {
                // absent-element calls
                let a = u.len() - 1 - rng.below(2);
                if !m.nodes.contains(&a) {
                    cx.log(|| format!("#{} queries on absent node {:?}", step, u[a]));
                    cx.ensure(g.neighbors(u[a]).next().is_none() && g.edges(u[a]).next().is_none() && g.edges_directed(u[a], Incoming).next().is_none(), "GraphMap:absent-node-not-empty", || "queries on an absent node yield elements".into())?;
                    let r = catch(|| g[(u[a], u[a])]);
                    cx.ensure(r.is_err(), "GraphMap:Index-absent-edge-no-panic", || "g[(a,a)] on an absent edge did not panic".into())?;
                }
            }
        }
        sweep(cx, &g, &m, &u)?;
    }
    check_conversions(cx, &g, &m, &u, rng)?;
    let mut h = kinds;
    for (&(a, b), _) in &m.edges {
        h.add((a * 64 + b) as u64);
    }
    h.add_str(&cx.config.clone());
    cx.note_case(h.0, nops >= 10 && removals >= 1 && m.nodes.len() >= 2);
    Ok(())
}

/// `into_graph::<u8>()` at the capacity of the index type: a `Graph<_, _, _, u8>` holds up to 255 nodes and 255 edges
/// (index 255 is the end marker); the conversion must succeed exactly up to there and panic (documented) beyond.
fn into_graph_at_the_index_limit<Ty: EdgeType + Clone>(cx: &mut Cx, rng: &mut Rng, tn: &str) -> R {
    cx.config = format!("GraphMap<u32,{}>/into_graph::<u8>", tn);
    let n = *rng.pick(&[254usize, 255, 255, 256]);
    let m = *rng.pick(&[0usize, 254, 255, 255, 256]);
    let mut g = GraphMap::<u32, u32, Ty>::with_capacity(0, 0);
    for i in 0..n {
        g.add_node(i as u32);
    }
    // m distinct pairs (i, j), i < j
    let mut added = 0;
    'fill: for d in 1..n {
        for i in 0..n - d {
            if added == m {
                break 'fill;
            }
            g.add_edge(i as u32, (i + d) as u32, (1000 + added) as u32);
            added += 1;
        }
    }
    cx.log(|| format!("GraphMap with {} nodes and {} edges -> into_graph::<u8>()", n, added));
    cx.count(&format!("into_graph::<u8>:{}-nodes/{}-edges", n, added));
    let fits = n <= 255 && added <= 255;
    let gc = g.clone();
    match catch(move || gc.into_graph::<u8>()) {
        Ok(gr) => {
            cx.ensure(fits, "GraphMap:into_graph-beyond-index-type-did-not-panic", || format!("{} nodes / {} edges converted into a Graph<u8>", n, added))?;
            cx.ensure(gr.node_count() == n && gr.edge_count() == added, "GraphMap:into_graph-counts", || format!("{} / {} instead of {} / {}", gr.node_count(), gr.edge_count(), n, added))?;
            let mut es: Vec<(u32, u32, u32)> = gr.edge_references().map(|e| (gr[e.source()], gr[e.target()], *e.weight())).collect();
            es.sort();
            let mut want: Vec<(u32, u32, u32)> = g.all_edges().map(|(a, b, w)| (a, b, *w)).collect();
            want.sort();
            cx.ensure(es == want, "GraphMap:into_graph-edges", || "edge list differs after conversion at the index limit".into())?;
        }
        Err(p) => cx.ensure(!fits, "GraphMap:into_graph-panics-although-it-fits", || format!("{} nodes / {} edges fit a Graph<u8> (255 / 255) but into_graph panicked: {}", n, added, p.short()))?,
    }
    Ok(())
}

pub fn case(cx: &mut Cx, rng: &mut Rng) -> R {
    use fxhash::FxBuildHasher;
    use petgraph::{Directed, Undirected};
    use std::collections::hash_map::RandomState;
    if !cx.small && rng.chance(1, 250) {
        cx.note_case(rng.next_u64(), true);
        return if rng.coin() { into_graph_at_the_index_limit::<Directed>(cx, rng, "Directed") } else { into_graph_at_the_index_limit::<Undirected>(cx, rng, "Undirected") };
    }
    macro_rules! pick_hasher {
        ($N:ty, $Ty:ty) => {
            match rng.below(3) {
                0 => history::<$N, $Ty, RandomState>(cx, rng, "RandomState"),
                1 => history::<$N, $Ty, FxBuildHasher>(cx, rng, "Fx"),
                _ => history::<$N, $Ty, ConstHash>(cx, rng, "ConstHash"),
            }
        };
    }
    match (rng.below(3), rng.coin()) {
        (0, true) => pick_hasher!(i32, Directed),
        (0, false) => pick_hasher!(i32, Undirected),
        (1, true) => pick_hasher!((u8, u8), Directed),
        (1, false) => pick_hasher!((u8, u8), Undirected),
        (_, true) => pick_hasher!(&'static str, Directed),
        (_, false) => pick_hasher!(&'static str, Undirected),
    }
}
