//! C05 - Csr and adj::List (append-only graphs) against set / list models.

use crate::cx::{catch, Cx, R};
use crate::rng::Rng;
use petgraph::adj::List;
use petgraph::csr::Csr;
use petgraph::data::{Build, DataMap};
use petgraph::graph::IndexType;
use petgraph::visit::*;
use petgraph::EdgeType;
use std::collections::BTreeMap;

// ------------------------------------------------------------------ Csr

struct CsrModel {
    directed: bool,
    nodes: Vec<u32>,
    /// (a, b) -> weight; undirected: both orientations present
    adj: BTreeMap<(usize, usize), u32>,
    m: usize,
}

impl CsrModel {
    fn row(&self, a: usize) -> Vec<(usize, u32)> {
        self.adj.range((a, 0)..(a + 1, 0)).map(|(&(_, b), &w)| (b, w)).collect()
    }
    fn add(&mut self, a: usize, b: usize, w: u32) -> bool {
        if self.adj.contains_key(&(a, b)) {
            return false;
        }
        self.adj.insert((a, b), w);
        if !self.directed {
            self.adj.insert((b, a), w);
        }
        self.m += 1;
        true
    }
}

fn csr_sweep<Ty: EdgeType, Ix: IndexType>(cx: &mut Cx, g: &Csr<u32, u32, Ty, Ix>, m: &CsrModel, rng: &mut Rng) -> R {
    let n = m.nodes.len();
    cx.ensure(g.node_count() == n, "Csr:node_count", || format!("{} vs model {}", g.node_count(), n))?;
    cx.ensure(g.edge_count() == m.m, "Csr:edge_count", || format!("edge_count() = {}, model {}", g.edge_count(), m.m))?;
    cx.ensure(g.is_directed() == m.directed, "Csr:is_directed", || "wrong".into())?;
    let ids: Vec<usize> = g.node_identifiers().map(|i| i.index()).collect();
    cx.ensure(ids == (0..n).collect::<Vec<_>>(), "Csr:node_identifiers", || format!("{:?}", ids))?;
    let mut pos = 0usize;
    for a in 0..n {
        let ai = Ix::new(a);
        let row = m.row(a);
        cx.ensure(g[ai] == m.nodes[a], "Csr:node-weight", || format!("node {} weight {} model {}", a, g[ai], m.nodes[a]))?;
        cx.ensure(g.out_degree(ai) == row.len(), "Csr:out_degree", || format!("out_degree({}) = {}, model {}", a, g.out_degree(ai), row.len()))?;
        let ns: Vec<usize> = g.neighbors_slice(ai).iter().map(|x| x.index()).collect();
        cx.ensure(ns.windows(2).all(|w| w[0] < w[1]), "Csr:row-not-strictly-ascending", || format!("row {} = {:?}", a, ns))?;
        let want_n: Vec<usize> = row.iter().map(|x| x.0).collect();
        cx.ensure(ns == want_n, "Csr:neighbors_slice", || format!("row {} = {:?}, model {:?}", a, ns, want_n))?;
        let ws: Vec<u32> = g.edges_slice(ai).to_vec();
        let want_w: Vec<u32> = row.iter().map(|x| x.1).collect();
        cx.ensure(ws == want_w, "Csr:edges_slice", || format!("row {} weights {:?}, model {:?}", a, ws, want_w))?;
        let es: Vec<(usize, usize, u32, usize)> = g.edges(ai).map(|e| (e.source().index(), e.target().index(), *e.weight(), e.id())).collect();
        let want_e: Vec<(usize, usize, u32, usize)> = row.iter().enumerate().map(|(k, x)| (a, x.0, x.1, pos + k)).collect();
        cx.ensure(es == want_e, "Csr:edges(a)", || format!("edges({}) = {:?}, model {:?}", a, es, want_e))?;
        let nb: Vec<usize> = g.neighbors(ai).map(|x| x.index()).collect();
        cx.ensure(nb == want_n, "Csr:neighbors(a)", || format!("neighbors({}) = {:?}", a, nb))?;
        pos += row.len();
        // contains_edge: every column for small graphs, a sample otherwise
        let step = if n <= 24 { 1 } else { 1 + rng.below(n / 8) };
        let mut b = rng.below(step);
        while b < n {
            let want = m.adj.contains_key(&(a, b));
            let got = g.contains_edge(ai, Ix::new(b));
            cx.ensure(got == want, "Csr:contains_edge", || format!("contains_edge({},{}) = {}, model {}", a, b, got, want))?;
            b += step;
        }
    }
    // edge_references: each edge once (undirected: one orientation)
    let mut got: Vec<(usize, usize, u32)> = g
        .edge_references()
        .map(|e| {
            let (u, v) = (e.source().index(), e.target().index());
            if m.directed || u <= v { (u, v, *e.weight()) } else { (v, u, *e.weight()) }
        })
        .collect();
    got.sort();
    let want: Vec<(usize, usize, u32)> = m.adj.iter().filter(|(&(a, b), _)| m.directed || a <= b).map(|(&(a, b), &w)| (a, b, w)).collect();
    cx.ensure(got == want, "Csr:edge_references", || format!("edge_references {:?}, model {:?}", got, want))?;
    // raw arrays
    let (row, col, _ec) = g.verif_raw();
    cx.ensure(row.len() == n + 1 && row[0] == 0 && *row.last().unwrap() == col.len(), "Csr:raw-row-bounds", || format!("row {:?} column len {}", row, col.len()))?;
    cx.ensure(row.windows(2).all(|w| w[0] <= w[1]), "Csr:raw-row-monotone", || format!("row {:?}", row))?;
    Ok(())
}

fn csr_history<Ty: EdgeType, Ix: IndexType>(cx: &mut Cx, rng: &mut Rng, ixname: &str) -> R {
    let directed = Ty::is_directed();
    cx.config = format!("Csr<{},{}>", if directed { "Directed" } else { "Undirected" }, ixname);
    let small = cx.small;
    let maxn = if small { 12 } else if rng.chance(1, 3) { 80 } else { 20 };
    let mut g = Csr::<u32, u32, Ty, Ix>::new();
    let mut m = CsrModel { directed, nodes: vec![], adj: BTreeMap::new(), m: 0 };
    let mut next_w = 1u32;
    let n0 = rng.urange(1, maxn);
    if rng.coin() {
        g = Csr::with_nodes(n0);
        m.nodes = vec![0; n0];
        cx.log(|| format!("with_nodes({})", n0));
    } else {
        for _ in 0..n0 {
            let i = g.add_node(next_w);
            cx.ensure(i.index() == m.nodes.len(), "Csr:add_node-index", || format!("add_node returned {}", i.index()))?;
            m.nodes.push(next_w);
            next_w += 1;
        }
        cx.log(|| format!("{} x add_node", n0));
    }
    let nops = if small { rng.urange(10, 60) } else { rng.urange(20, 500) };
    let hubs: Vec<usize> = (0..3).map(|_| rng.below(n0)).collect();
    let order = rng.below(3); // 0 ascending, 1 descending, 2 random targets
    let mut cursor = 0usize;
    let mut max_row = 0;
    for step in 0..nops {
        let n = m.nodes.len();
        cx.ops += 1;
        match rng.weighted(&[70, 6, 1, 3, 4]) {
            0 => {
                let oob = rng.chance(1, 12);
                let a = if oob && rng.coin() { n + rng.below(3) } else if rng.chance(7, 10) { hubs[rng.below(3)] } else { rng.below(n) };
                let b = if oob && a < n { n + rng.below(3) } else if oob { rng.below(n + 2) } else {
                    match order {
                        0 => { cursor = (cursor + 1) % n; cursor }
                        1 => { cursor = (cursor + n - 1) % n; cursor }
                        _ => rng.below(n),
                    }
                };
                let w = next_w;
                next_w += 1;
                let valid = a < n && b < n;
                let use_try = rng.coin();
                cx.log(|| format!("#{} {}({}, {}, w{})", step, if use_try { "try_add_edge" } else { "add_edge" }, a, b, w));
                if Ix::new(a).index() != a || Ix::new(b).index() != b {
                    continue; // not representable in Ix
                }
                if use_try {
                    let got = g.try_add_edge(Ix::new(a), Ix::new(b), w);
                    if valid {
                        let want = m.add(a, b, w);
                        cx.ensure(got.as_ref().ok() == Some(&want), "Csr:try_add_edge-result", || format!("try_add_edge({},{}) = {:?}, model Ok({})", a, b, got, want))?;
                    } else {
                        cx.ensure(got.is_err(), "Csr:try_add_edge-out-of-range-accepted", || format!("try_add_edge({},{}) with {} nodes = {:?}", a, b, n, got))?;
                        csr_sweep(cx, &g, &m, rng)?;
                    }
                } else {
                    let got = catch(|| g.add_edge(Ix::new(a), Ix::new(b), w));
                    if valid {
                        let want = m.add(a, b, w);
                        match got {
                            Ok(r) => cx.ensure(r == want, "Csr:add_edge-result", || format!("add_edge({},{}) = {}, model {}", a, b, r, want))?,
                            Err(p) => cx.ensure(false, "Csr:add_edge-unexpected-panic", || format!("add_edge({},{}) panicked: {}", a, b, p.short()))?,
                        }
                    } else {
                        cx.ensure(got.is_err(), "Csr:add_edge-out-of-range-no-panic", || format!("add_edge({},{}) with {} nodes returned {:?}", a, b, n, got.as_ref().ok()))?;
                        csr_sweep(cx, &g, &m, rng)?;
                    }
                }
                if valid {
                    max_row = max_row.max(m.row(a).len());
                }
            }
            1 => {
                if n < maxn {
                    let w = next_w;
                    next_w += 1;
                    cx.log(|| format!("#{} add_node(w{})", step, w));
                    let i = g.add_node(w);
                    cx.ensure(i.index() == n, "Csr:add_node-index", || format!("add_node returned {}, expected {}", i.index(), n))?;
                    m.nodes.push(w);
                }
            }
            2 => {
                cx.log(|| format!("#{} clear_edges()", step));
                g.clear_edges();
                m.adj.clear();
                m.m = 0;
            }
            3 => {
                cx.log(|| format!("#{} clone", step));
                g = g.clone();
            }
            _ => {
                cx.log(|| format!("#{} sweep", step));
                csr_sweep(cx, &g, &m, rng)?;
            }
        }
        if m.nodes.len() <= 12 || step % 25 == 24 {
            csr_sweep(cx, &g, &m, rng)?;
        }
    }
    csr_sweep(cx, &g, &m, rng)?;
    if max_row >= 32 {
        cx.count("Csr:history-with-row>=32");
    }
    let mut h = crate::cx::H::new();
    h.add_str(&cx.config.clone());
    h.add(m.nodes.len() as u64);
    for (&(a, b), _) in &m.adj {
        h.add((a * 1000 + b) as u64);
    }
    cx.note_case(h.0, m.nodes.len() >= 3 && m.m >= 3);
    Ok(())
}

/// from_sorted_edges: Ok exactly on strictly sorted duplicate-free input, then equal to edge-by-edge
fn csr_from_sorted<Ix: IndexType>(cx: &mut Cx, rng: &mut Rng, ixname: &str) -> R {
    cx.config = format!("Csr<Directed,{}>/from_sorted_edges", ixname);
    let n = rng.urange(1, if cx.small { 8 } else { 45 });
    let dens = [5u32, 20, 60, 95][rng.below(4)];
    let mut list: Vec<(usize, usize, u32)> = vec![];
    let mut w = 1;
    for a in 0..n {
        for b in 0..n {
            if rng.chance(dens, 100) {
                list.push((a, b, w));
                w += 1;
            }
        }
    }
    let conv = |l: &[(usize, usize, u32)]| -> Vec<(Ix, Ix, u32)> { l.iter().map(|&(a, b, w)| (Ix::new(a), Ix::new(b), w)).collect() };
    let valid = conv(&list);
    cx.log(|| format!("from_sorted_edges with {} sorted unique edges on {} nodes", list.len(), n));
    let r = Csr::<u32, u32, petgraph::Directed, Ix>::from_sorted_edges(&valid);
    cx.ensure(r.is_ok(), "Csr:from_sorted_edges-rejects-valid", || format!("valid input rejected: {:?}", list))?;
    let g = r.unwrap();
    // equal to edge-by-edge insertion in random order
    let nn = list.iter().map(|e| e.0.max(e.1) + 1).max().unwrap_or(0);
    let mut h = Csr::<u32, u32, petgraph::Directed, Ix>::with_nodes(nn);
    let mut shuffled = list.clone();
    rng.shuffle(&mut shuffled);
    for &(a, b, ww) in &shuffled {
        h.add_edge(Ix::new(a), Ix::new(b), ww);
    }
    cx.ensure(g.node_count() == h.node_count() && g.edge_count() == h.edge_count(), "Csr:from_sorted_edges-counts", || {
        format!("from_sorted: {} nodes {} edges; edge-by-edge: {} nodes {} edges", g.node_count(), g.edge_count(), h.node_count(), h.edge_count())
    })?;
    for a in 0..nn {
        let ai = Ix::new(a);
        cx.ensure(g.neighbors_slice(ai) == h.neighbors_slice(ai) && g.edges_slice(ai) == h.edges_slice(ai), "Csr:from_sorted_edges-differs-from-edge-by-edge", || {
            format!("row {}: {:?}/{:?} vs {:?}/{:?}", a, g.neighbors_slice(ai).iter().map(|x| x.index()).collect::<Vec<_>>(), g.edges_slice(ai), h.neighbors_slice(ai).iter().map(|x| x.index()).collect::<Vec<_>>(), h.edges_slice(ai))
        })?;
    }
    let (row, col, _) = g.verif_raw();
    cx.ensure(*row.last().unwrap() == col.len() && row.len() == nn + 1, "Csr:from_sorted_edges-raw", || format!("row {:?} col {}", row, col.len()))?;
    // perturbations must be rejected
    if list.len() >= 2 {
        for kind in 0..4 {
            let mut bad = list.clone();
            let i = rng.below(bad.len() - 1);
            let what = match kind {
                0 => {
                    let j = i + 1 + rng.below(bad.len() - 1 - i);
                    if (bad[i].0, bad[i].1) == (bad[j].0, bad[j].1) {
                        continue;
                    }
                    bad.swap(i, j);
                    "two-entries-swapped"
                }
                1 => {
                    let d = bad[i];
                    bad.insert(i + 1, d);
                    "duplicate-entry"
                }
                2 => {
                    // decreasing source at the end
                    let last = *bad.last().unwrap();
                    if last.0 == 0 {
                        continue;
                    }
                    bad.push((last.0 - 1, last.1, 999));
                    "decreasing-source-at-end"
                }
                _ => {
                    // equal target repeated with another weight (duplicate edge, different weight)
                    let d = bad[i];
                    bad.insert(i + 1, (d.0, d.1, 998));
                    "duplicate-edge-other-weight"
                }
            };
            let r = Csr::<u32, u32, petgraph::Directed, Ix>::from_sorted_edges(&conv(&bad));
            cx.ensure(r.is_err(), &format!("Csr:from_sorted_edges-accepts-{}", what), || format!("accepted {:?}", bad))?;
        }
    }
    cx.note_case(crate::rng::mix(list.len() as u64, n as u64) ^ list.iter().fold(0u64, |h, e| crate::rng::mix(h, (e.0 * 100 + e.1) as u64)), list.len() >= 3);
    Ok(())
}

// ------------------------------------------------------------------ adj::List

fn list_sweep<Ix: IndexType>(cx: &mut Cx, g: &List<u32, Ix>, m: &[Vec<(usize, u32)>], held: &[(petgraph::adj::EdgeIndex<Ix>, usize, usize)]) -> R {
    let n = m.len();
    let total: usize = m.iter().map(|r| r.len()).sum();
    cx.ensure(NodeCount::node_count(g) == n, "List:node_count", || format!("{} vs model {}", NodeCount::node_count(g), n))?;
    cx.ensure(g.edge_count() == total, "List:edge_count", || format!("edge_count() = {}, model {}", g.edge_count(), total))?;
    let ids: Vec<usize> = g.node_indices().map(|i| i.index()).collect();
    cx.ensure(ids == (0..n).collect::<Vec<_>>(), "List:node_indices", || format!("{:?}", ids))?;
    // every edge index ever returned still resolves to the same endpoints / current weight
    for &(e, a, k) in held {
        let ep = g.edge_endpoints(e).map(|(x, y)| (x.index(), y.index()));
        cx.ensure(ep == Some((a, m[a][k].0)), "List:held-edge-index-endpoints", || format!("edge #{} of node {}: endpoints {:?}, model ({}, {})", k, a, ep, a, m[a][k].0))?;
        let w = g.edge_weight(e).copied();
        cx.ensure(w == Some(m[a][k].1), "List:held-edge-index-weight", || format!("edge #{} of node {}: weight {:?}, model {}", k, a, w, m[a][k].1))?;
    }
    let all_idx: Vec<petgraph::adj::EdgeIndex<Ix>> = g.edge_indices().take(total + 1).collect();
    cx.ensure(all_idx.len() == total, "List:edge_indices-count", || format!("{} indices, {} edges", all_idx.len(), total))?;
    let mut flat = vec![];
    for a in 0..n {
        for (k, &(b, w)) in m[a].iter().enumerate() {
            flat.push((a, b, w, k));
        }
    }
    for (i, e) in all_idx.iter().enumerate() {
        let ep = g.edge_endpoints(*e).map(|(x, y)| (x.index(), y.index()));
        cx.ensure(ep == Some((flat[i].0, flat[i].1)) && g.edge_weight(*e) == Some(&flat[i].2), "List:edge_indices-order", || {
            format!("edge_indices()[{}] resolves to {:?}, model {:?}", i, ep, flat[i])
        })?;
    }
    let refs: Vec<(usize, usize, u32)> = g.edge_references().take(total + 1).map(|e| (e.source().index(), e.target().index(), *e.weight())).collect();
    let want: Vec<(usize, usize, u32)> = flat.iter().map(|f| (f.0, f.1, f.2)).collect();
    cx.ensure(refs == want, "List:edge_references", || format!("{:?} vs model {:?}", refs, want))?;
    for a in 0..n {
        let ai = Ix::new(a);
        let nb: Vec<usize> = g.neighbors(ai).map(|x| x.index()).collect();
        let wn: Vec<usize> = m[a].iter().map(|x| x.0).collect();
        cx.ensure(nb == wn, "List:neighbors", || format!("neighbors({}) = {:?}, model {:?}", a, nb, wn))?;
        let es: Vec<(usize, usize, u32)> = g.edges(ai).map(|e| (e.source().index(), e.target().index(), *e.weight())).collect();
        let we: Vec<(usize, usize, u32)> = m[a].iter().map(|x| (a, x.0, x.1)).collect();
        cx.ensure(es == we, "List:edges(a)", || format!("edges({}) = {:?}, model {:?}", a, es, we))?;
        let from: Vec<_> = g.edge_indices_from(ai).collect();
        cx.ensure(from.len() == m[a].len(), "List:edge_indices_from", || format!("{} indices from {}, model {}", from.len(), a, m[a].len()))?;
        for (k, e) in from.iter().enumerate() {
            cx.ensure(g.edge_endpoints(*e).map(|(x, y)| (x.index(), y.index())) == Some((a, m[a][k].0)), "List:edge_indices_from-resolve", || format!("index #{} from {}", k, a))?;
        }
        for b in 0..n + 1 {
            let first = m[a].iter().position(|x| x.0 == b);
            let got = g.contains_edge(ai, Ix::new(b));
            cx.ensure(got == first.is_some(), "List:contains_edge", || format!("contains_edge({},{}) = {}", a, b, got))?;
            let fe = g.find_edge(ai, Ix::new(b));
            match (fe, first) {
                (None, None) => {}
                (Some(e), Some(k)) => cx.ensure(e == from[k], "List:find_edge-not-first-match", || format!("find_edge({},{}) is not the first matching edge #{}", a, b, k))?,
                _ => cx.ensure(false, "List:find_edge", || format!("find_edge({},{}) = {:?}, model first match {:?}", a, b, fe.is_some(), first))?,
            }
        }
    }
    // absent source
    let oob = Ix::new(n);
    if oob.index() == n {
        cx.ensure(!g.contains_edge(oob, Ix::new(0)) && g.find_edge(oob, Ix::new(0)).is_none(), "List:absent-source-query", || "query on absent node is not empty".into())?;
    }
    Ok(())
}

fn list_history<Ix: IndexType>(cx: &mut Cx, rng: &mut Rng, ixname: &str) -> R {
    cx.config = format!("adj::List<{}>", ixname);
    let small = cx.small;
    let maxn = if small { 8 } else { 24 };
    let mut g: List<u32, Ix> = if rng.coin() { List::new() } else { List::with_capacity(rng.below(8)) };
    let mut m: Vec<Vec<(usize, u32)>> = vec![];
    let mut held: Vec<(petgraph::adj::EdgeIndex<Ix>, usize, usize)> = vec![];
    let mut next_w = 1u32;
    let nops = if small { rng.urange(10, 50) } else { rng.urange(20, 300) };
    let mut parallel = false;
    for step in 0..nops {
        let n = m.len();
        cx.ops += 1;
        match rng.weighted(&[14, 3, 3, 45, 18, 1, 3, 5]) {
            0 => {
                if n < maxn {
                    cx.log(|| format!("#{} add_node()", step));
                    let i = g.add_node();
                    cx.ensure(i.index() == n, "List:add_node-index", || format!("add_node() = {}, expected {}", i.index(), n))?;
                    m.push(vec![]);
                }
            }
            1 => {
                if n < maxn {
                    cx.log(|| format!("#{} add_node_with_capacity", step));
                    let i = g.add_node_with_capacity(rng.below(6));
                    cx.ensure(i.index() == n, "List:add_node-index", || format!("add_node_with_capacity = {}", i.index()))?;
                    m.push(vec![]);
                }
            }
            2 => {
                if n < maxn && n > 0 {
                    let k = rng.below(4);
                    let es: Vec<(usize, u32)> = (0..k).map(|_| { next_w += 1; (rng.below(n), next_w) }).collect();
                    cx.log(|| format!("#{} add_node_from_edges({:?})", step, es));
                    let i = g.add_node_from_edges(es.iter().map(|&(b, w)| (Ix::new(b), w)));
                    cx.ensure(i.index() == n, "List:add_node-index", || format!("add_node_from_edges = {}", i.index()))?;
                    m.push(es);
                }
            }
            3 | 4 => {
                if n == 0 {
                    continue;
                }
                let upd = rng.chance(1, 4);
                let oob = rng.chance(1, 12);
                let a = if oob && rng.coin() { n + rng.below(2) } else { rng.below(n) };
                let b = if oob && a < n { n + rng.below(2) } else if rng.chance(1, 3) && a < n && !m[a].is_empty() { m[a][rng.below(m[a].len())].0 } else { rng.below(n) };
                if Ix::new(a).index() != a || Ix::new(b).index() != b {
                    continue;
                }
                next_w += 1;
                let w = next_w;
                let valid = a < n && b < n;
                if upd {
                    if !valid {
                        // Build::update_edge only says "might panic": not exercised out of range
                        continue;
                    }
                    cx.log(|| format!("#{} update_edge({}, {}, w{})", step, a, b, w));
                    let e = Build::update_edge(&mut g, Ix::new(a), Ix::new(b), w);
                    let k = match m[a].iter().position(|x| x.0 == b) {
                        Some(k) => {
                            m[a][k].1 = w;
                            k
                        }
                        None => {
                            m[a].push((b, w));
                            m[a].len() - 1
                        }
                    };
                    let ep = g.edge_endpoints(e).map(|(x, y)| (x.index(), y.index()));
                    cx.ensure(ep == Some((a, b)) && g.edge_weight(e) == Some(&w), "List:update_edge-returned-index", || format!("update_edge({},{}) returned an index resolving to {:?}", a, b, ep))?;
                    held.push((e, a, k));
                } else {
                    cx.log(|| format!("#{} add_edge({}, {}, w{})", step, a, b, w));
                    let r = catch(|| g.add_edge(Ix::new(a), Ix::new(b), w));
                    if valid {
                        match r {
                            Ok(e) => {
                                if m[a].iter().any(|x| x.0 == b) {
                                    parallel = true;
                                }
                                m[a].push((b, w));
                                held.push((e, a, m[a].len() - 1));
                            }
                            Err(p) => cx.ensure(false, "List:add_edge-unexpected-panic", || format!("add_edge({},{}) panicked: {}", a, b, p.short()))?,
                        }
                    } else {
                        cx.ensure(r.is_err(), "List:add_edge-out-of-range-no-panic", || format!("add_edge({},{}) with {} nodes did not panic", a, b, n))?;
                        list_sweep(cx, &g, &m, &held)?;
                    }
                }
            }
            5 => {
                cx.log(|| format!("#{} clear()", step));
                g.clear();
                m.clear();
                held.clear();
            }
            6 => {
                cx.log(|| format!("#{} clone", step));
                g = g.clone();
            }
            _ => {
                cx.log(|| format!("#{} sweep", step));
                list_sweep(cx, &g, &m, &held)?;
            }
        }
        if step % 20 == 19 {
            list_sweep(cx, &g, &m, &held)?;
        }
    }
    list_sweep(cx, &g, &m, &held)?;
    if parallel {
        cx.count("List:history-with-parallel-edges");
    }
    let mut h = crate::cx::H::new();
    h.add_str(ixname);
    for (a, r) in m.iter().enumerate() {
        for x in r {
            h.add((a * 1000 + x.0) as u64);
        }
    }
    let total: usize = m.iter().map(|r| r.len()).sum();
    cx.note_case(h.0, m.len() >= 3 && total >= 3);
    Ok(())
}

pub fn case(cx: &mut Cx, rng: &mut Rng) -> R {
    use petgraph::{Directed, Undirected};
    let w = rng.below(4);
    match rng.below(7) {
        0 | 1 => match w {
            0 => csr_history::<Directed, u8>(cx, rng, "u8"),
            1 => csr_history::<Directed, u16>(cx, rng, "u16"),
            2 => csr_history::<Directed, u32>(cx, rng, "u32"),
            _ => csr_history::<Directed, usize>(cx, rng, "usize"),
        },
        2 | 3 => match w {
            0 => csr_history::<Undirected, u8>(cx, rng, "u8"),
            1 => csr_history::<Undirected, u16>(cx, rng, "u16"),
            2 => csr_history::<Undirected, u32>(cx, rng, "u32"),
            _ => csr_history::<Undirected, usize>(cx, rng, "usize"),
        },
        4 => match w {
            0 => csr_from_sorted::<u8>(cx, rng, "u8"),
            1 => csr_from_sorted::<u16>(cx, rng, "u16"),
            2 => csr_from_sorted::<u32>(cx, rng, "u32"),
            _ => csr_from_sorted::<usize>(cx, rng, "usize"),
        },
        _ => match w {
            0 => list_history::<u8>(cx, rng, "u8"),
            1 => list_history::<u16>(cx, rng, "u16"),
            2 => list_history::<u32>(cx, rng, "u32"),
            _ => list_history::<usize>(cx, rng, "usize"),
        },
    }
}
