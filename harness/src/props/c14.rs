//! C14 - `Acyclic<G>`: no cycle ever gets in, the maintained order stays a valid topological
//! order of exactly the live nodes, rejected insertions change nothing, removals (present or
//! not) never disturb the bookkeeping of the remaining nodes.

use crate::cx::{catch, Cx, R};
use crate::rng::Rng;
use petgraph::acyclic::{Acyclic, AcyclicEdgeError};
use petgraph::data::Build;
use petgraph::graph::{DiGraph, EdgeIndex, IndexType, NodeIndex};
use petgraph::stable_graph::StableDiGraph;
use petgraph::visit::{EdgeRef, IntoEdgeReferences, IntoNodeReferences, NodeIndexable};
use std::collections::{BTreeMap, BTreeSet};

/// index-free model: node weights and (source weight, target weight, edge weight) triples
#[derive(Clone, Debug, PartialEq, Default)]
struct Dag {
    nodes: BTreeSet<u32>,
    edges: BTreeSet<(u32, u32, u32)>,
}
impl Dag {
    fn reaches(&self, from: u32, to: u32) -> bool {
        let mut seen = BTreeSet::new();
        let mut st = vec![from];
        while let Some(u) = st.pop() {
            if u == to {
                return true;
            }
            if seen.insert(u) {
                for &(a, b, _) in &self.edges {
                    if a == u {
                        st.push(b);
                    }
                }
            }
        }
        false
    }
}

fn imax<Ix: IndexType>() -> usize {
    <Ix as IndexType>::max().index()
}

macro_rules! gen_acyclic {
    ($history:ident, $check:ident, $G:ident, $tn:expr, stable: $stable:expr) => {
        /// every invariant of the statement, against the model
        fn $check<Ix: IndexType>(cx: &mut Cx, a: &Acyclic<$G<u32, u32, Ix>>, m: &Dag) -> R {
            let g = a.inner();
            // inner graph == model (by the unique weights)
            let nodes: BTreeMap<usize, u32> = g.node_references().map(|(i, w)| (i.index(), *w)).collect();
            let ws: BTreeSet<u32> = nodes.values().copied().collect();
            cx.ensure(ws == m.nodes && nodes.len() == m.nodes.len(), &format!("{}:inner-nodes", $tn), || format!("inner graph has node weights {:?}, model {:?}", ws, m.nodes))?;
            let mut es: Vec<(u32, u32, u32)> = vec![];
            for e in g.edge_references() {
                es.push((nodes[&e.source().index()], nodes[&e.target().index()], *e.weight()));
            }
            let eset: BTreeSet<(u32, u32, u32)> = es.iter().copied().collect();
            cx.ensure(eset == m.edges && es.len() == m.edges.len(), &format!("{}:inner-edges", $tn), || format!("inner graph has edges {:?}, model {:?}", es, m.edges))?;
            // acyclic: no edge whose target reaches its source
            for &(s, t, _) in &m.edges {
                cx.ensure(!m.reaches(t, s), &format!("{}:cycle-in-graph", $tn), || format!("edge {}->{} closes a cycle", s, t))?;
            }
            // the order lists exactly the live nodes, each once
            let order: Vec<usize> = a.nodes_iter().take(nodes.len() + 3).map(|n| n.index()).collect();
            let oset: BTreeSet<usize> = order.iter().copied().collect();
            let live: BTreeSet<usize> = nodes.keys().copied().collect();
            cx.ensure(order.len() == oset.len(), &format!("{}:order-lists-a-node-twice", $tn), || format!("nodes_iter = {:?}", order))?;
            cx.ensure(oset == live, &format!("{}:order-not-the-live-nodes", $tn), || format!("nodes_iter = {:?}, live nodes {:?}", order, live))?;
            // positions: strictly increasing along nodes_iter, get_position/at_position inverse
            let mut last = None;
            for &n in &order {
                let p = a.get_position(NodeIndex::new(n));
                cx.ensure(a.at_position(p).map(|x| x.index()) == Some(n), &format!("{}:at_position(get_position)", $tn), || format!("node {}: at_position(get_position) = {:?}", n, a.at_position(p)))?;
                if let Some(q) = last {
                    cx.ensure(q < p, &format!("{}:positions-not-increasing-along-nodes_iter", $tn), || format!("node {} has position {:?} after {:?}", n, p, q))?;
                }
                last = Some(p);
            }
            // every edge goes from an earlier to a later position
            for e in g.edge_references() {
                let (ps, pt) = (a.get_position(e.source()), a.get_position(e.target()));
                cx.ensure(ps < pt, &format!("{}:edge-against-the-order", $tn), || format!("edge {}->{} goes from position {:?} to {:?}", e.source().index(), e.target().index(), ps, pt))?;
            }
            // range(..) consistent with nodes_iter
            let full: Vec<usize> = a.range(..).map(|n| n.index()).collect();
            cx.ensure(full == order, &format!("{}:range(..)", $tn), || format!("range(..) = {:?}, nodes_iter = {:?}", full, order))?;
            if order.len() >= 2 {
                let i = order.len() / 3;
                let j = order.len() - 1 - order.len() / 4;
                if i <= j {
                    let (pi, pj) = (a.get_position(NodeIndex::new(order[i])), a.get_position(NodeIndex::new(order[j])));
                    let sub: Vec<usize> = a.range(pi..=pj).map(|n| n.index()).collect();
                    cx.ensure(sub == order[i..=j].to_vec(), &format!("{}:range(sub)", $tn), || format!("range({:?}..={:?}) = {:?}, expected {:?}", pi, pj, sub, &order[i..=j]))?;
                    let sub: Vec<usize> = a.range(pi..pj).map(|n| n.index()).collect();
                    cx.ensure(sub == order[i..j].to_vec(), &format!("{}:range(sub-exclusive)", $tn), || format!("{:?}", sub))?;
                }
            }
            // raw bookkeeping: every entry of the position map names a live node and agrees with the inverse map
            let (p2n, n2p) = a.verif_order();
            cx.ensure(p2n.len() == live.len(), &format!("{}:raw-order-size", $tn), || format!("{} positions for {} live nodes", p2n.len(), live.len()))?;
            for &(p, n) in &p2n {
                cx.ensure(live.contains(&n), &format!("{}:raw-order-names-dead-node", $tn), || format!("position {} -> node index {} which is not live", p, n))?;
                cx.ensure(n2p.get(n) == Some(&p), &format!("{}:raw-maps-not-inverse", $tn), || format!("pos_to_node[{}] = {} but node_to_pos[{}] = {:?}", p, n, n, n2p.get(n)))?;
            }
            Ok(())
        }

        fn $history<Ix: IndexType>(cx: &mut Cx, rng: &mut Rng, ixname: &str) -> R {
            cx.config = format!("Acyclic<{}<{}>>", $tn, ixname);
            let small = cx.small;
            let mut m = Dag::default();
            let mut next_w = 1u32;
            // start: empty, or try_from_graph on a random digraph
            let mut a: Acyclic<$G<u32, u32, Ix>> = Acyclic::new();
            if rng.chance(1, 3) {
                let n0 = rng.urange(1, 7);
                let mut g0 = $G::<u32, u32, Ix>::default();
                let mut m0 = Dag::default();
                let ids: Vec<_> = (0..n0).map(|_| { next_w += 1; m0.nodes.insert(next_w); (g0.add_node(next_w), next_w) }).collect();
                let dagish = rng.chance(2, 3);
                for _ in 0..rng.below(9) {
                    let (mut x, mut y) = (rng.below(n0), rng.below(n0));
                    if dagish {
                        if x == y { continue; }
                        if x > y { std::mem::swap(&mut x, &mut y); }
                    }
                    next_w += 1;
                    g0.add_edge(ids[x].0, ids[y].0, next_w);
                    m0.edges.insert((ids[x].1, ids[y].1, next_w));
                }
                // half of the time the graph handed over has a removal history of its own (a StableDiGraph then has
                // vacancies below its node bound, a DiGraph has renumbered nodes)
                if rng.coin() {
                    for _ in 0..1 + rng.below(2) {
                        let nc = g0.node_count();
                        if nc <= 1 {
                            break;
                        }
                        let v = g0.node_indices().nth(rng.below(nc)).unwrap();
                        let w = g0[v];
                        g0.remove_node(v);
                        m0.nodes.remove(&w);
                        m0.edges.retain(|&(s, t, _)| s != w && t != w);
                    }
                    cx.count("try_from_graph:graph-with-removal-history");
                }
                let cyclic = m0.edges.iter().any(|&(s, t, _)| m0.reaches(t, s));
                cx.log(|| format!("try_from_graph(nodes {:?}, edges {:?}) cyclic={}", m0.nodes, m0.edges, cyclic));
                let r = if rng.coin() { Acyclic::try_from_graph(g0) } else { Acyclic::try_from(g0) };
                match r {
                    Ok(acy) => {
                        cx.ensure(!cyclic, &format!("{}:try_from_graph-accepts-cyclic", $tn), || format!("accepted a cyclic graph {:?}", m0.edges))?;
                        a = acy;
                        m = m0;
                    }
                    Err(_) => cx.ensure(cyclic, &format!("{}:try_from_graph-rejects-acyclic", $tn), || format!("rejected an acyclic graph {:?}", m0.edges))?,
                }
            }
            $check(cx, &a, &m)?;
            let nops = if small { rng.urange(8, 40) } else { rng.urange(20, 250) };
            let maxn = if rng.chance(1, 6) { 24 } else { 10 };
            let mut kinds = crate::cx::H::new();
            let mut removed_nonlast = 0;
            let mut rejected = 0;
            let mut dead: Vec<usize> = vec![]; // indices removed earlier (candidates for repeated removal)
            for step in 0..nops {
                cx.ops += 1;
                let live: Vec<(usize, u32)> = a.inner().node_references().map(|(i, w)| (i.index(), *w)).collect();
                let n = live.len();
                let op = rng.weighted(&[14, 45, 8, 8, 12, 6, 2]);
                kinds.add(op as u64);
                match op {
                    0 => {
                        if n >= maxn {
                            continue;
                        }
                        next_w += 1;
                        cx.log(|| format!("#{} add_node(w{})", step, next_w));
                        let i = Build::add_node(&mut a, next_w);
                        cx.ensure(!live.iter().any(|x| x.0 == i.index()), &format!("{}:add_node-index-is-live", $tn), || format!("add_node returned live index {}", i.index()))?;
                        m.nodes.insert(next_w);
                    }
                    1 | 2 => {
                        if n == 0 {
                            continue;
                        }
                        // long chains and back edges: bias towards pairs that are already related
                        let (x, y) = (live[rng.below(n)], if rng.chance(1, 10) { live[rng.below(n)] } else { live[rng.below(n)] });
                        let (xi, yi) = (NodeIndex::<Ix>::new(x.0), NodeIndex::<Ix>::new(y.0));
                        next_w += 1;
                        let w = next_w;
                        let existing: Option<(u32, u32, u32)> = m.edges.iter().copied().find(|e| e.0 == x.1 && e.1 == y.1);
                        let want_ok = x.0 != y.0 && !m.reaches(y.1, x.1);
                        let before_order: Vec<usize> = a.nodes_iter().map(|n| n.index()).collect();
                        let predicted = a.is_valid_edge(xi, yi);
                        cx.ensure(predicted == want_ok, &format!("{}:is_valid_edge", $tn), || format!("is_valid_edge({},{}) = {}, model says {}", x.0, y.0, predicted, want_ok))?;
                        let route = rng.below(4);
                        let name = ["try_add_edge", "try_update_edge", "Build::add_edge", "Build::update_edge"][route];
                        cx.log(|| format!("#{} {}({}, {}, w{})", step, name, x.0, y.0, w));
                        let res: Result<Result<EdgeIndex<Ix>, AcyclicEdgeError<NodeIndex<Ix>>>, crate::cx::PanicInfo> = match route {
                            0 => Ok(a.try_add_edge(xi, yi, w)),
                            1 => Ok(a.try_update_edge(xi, yi, w)),
                            2 => Ok(Build::add_edge(&mut a, xi, yi, w).ok_or(AcyclicEdgeError::InvalidEdge)),
                            _ => catch(|| Ok(Build::update_edge(&mut a, xi, yi, w))),
                        };
                        match res {
                            Ok(Ok(_e)) => {
                                cx.ensure(want_ok, &format!("{}:accepted-bad-edge", $tn), || format!("{}({},{}) accepted although {}", name, x.0, y.0, if x.0 == y.0 { "it is a self-loop" } else { "it closes a cycle" }))?;
                                if (route == 1 || route == 3) && existing.is_some() {
                                    // with parallel edges the library may update any of them: find the one
                                    // whose weight disappeared and adopt that choice
                                    let real: BTreeSet<u32> = {
                                        let g = a.inner();
                                        g.edge_references().filter(|e| e.source().index() == x.0 && e.target().index() == y.0).map(|e| *e.weight()).collect()
                                    };
                                    let gone: Vec<(u32, u32, u32)> = m.edges.iter().copied().filter(|e| e.0 == x.1 && e.1 == y.1 && !real.contains(&e.2)).collect();
                                    cx.ensure(gone.len() == 1, &format!("{}:update_edge-did-not-replace-exactly-one-weight", $tn), || format!("{}({},{}): weights that disappeared: {:?}", name, x.0, y.0, gone))?;
                                    m.edges.remove(&gone[0]);
                                }
                                m.edges.insert((x.1, y.1, w));
                            }
                            Ok(Err(err)) => {
                                cx.ensure(!want_ok, &format!("{}:rejected-good-edge", $tn), || format!("{}({},{}) = {:?} although the edge is fine", name, x.0, y.0, err))?;
                                if route < 2 {
                                    let self_loop = x.0 == y.0;
                                    cx.ensure(self_loop == (err == AcyclicEdgeError::SelfLoop), &format!("{}:error-kind", $tn), || format!("{}({},{}) = {:?}", name, x.0, y.0, err))?;
                                }
                                rejected += 1;
                                let after: Vec<usize> = a.nodes_iter().map(|n| n.index()).collect();
                                cx.ensure(after == before_order, &format!("{}:rejected-insertion-changed-the-order", $tn), || format!("order before {:?}, after {:?}", before_order, after))?;
                            }
                            Err(p) => {
                                cx.ensure(!want_ok, &format!("{}:unexpected-panic", $tn), || format!("{}({},{}) panicked: {}", name, x.0, y.0, p.short()))?;
                                rejected += 1;
                                let after: Vec<usize> = a.nodes_iter().map(|n| n.index()).collect();
                                cx.ensure(after == before_order, &format!("{}:rejected-insertion-changed-the-order", $tn), || format!("order before {:?}, after {:?}", before_order, after))?;
                            }
                        }
                    }
                    3 => {
                        let es: Vec<(usize, (u32, u32, u32))> = {
                            let g = a.inner();
                            let nw: BTreeMap<usize, u32> = live.iter().copied().collect();
                            g.edge_references().map(|e| (e.id().index(), (nw[&e.source().index()], nw[&e.target().index()], *e.weight()))).collect()
                        };
                        let absent = rng.chance(1, 5) || es.is_empty();
                        if absent {
                            let bound = es.iter().map(|x| x.0 + 1).max().unwrap_or(0);
                            let e = (bound + rng.below(2)).min(imax::<Ix>());
                            cx.log(|| format!("#{} remove_edge({}) [absent]", step, e));
                            let r = a.remove_edge(EdgeIndex::new(e));
                            cx.ensure(r.is_none(), &format!("{}:remove_edge-absent", $tn), || format!("remove_edge({}) = {:?}", e, r))?;
                        } else {
                            let (e, tr) = es[rng.below(es.len())];
                            cx.log(|| format!("#{} remove_edge({})", step, e));
                            let r = a.remove_edge(EdgeIndex::new(e));
                            cx.ensure(r == Some(tr.2), &format!("{}:remove_edge-result", $tn), || format!("remove_edge({}) = {:?}, model {}", e, r, tr.2))?;
                            m.edges.remove(&tr);
                        }
                    }
                    4 => {
                        if n == 0 {
                            continue;
                        }
                        // prefer a non-last node (Graph renumbers the last one)
                        let k = if n >= 2 && rng.chance(3, 4) { rng.below(n - 1) } else { rng.below(n) };
                        let (x, w) = live[k];
                        if k + 1 < n {
                            removed_nonlast += 1;
                        }
                        cx.log(|| format!("#{} remove_node({})", step, x));
                        let r = a.remove_node(NodeIndex::new(x));
                        cx.ensure(r == Some(w), &format!("{}:remove_node-result", $tn), || format!("remove_node({}) = {:?}, model {}", x, r, w))?;
                        m.nodes.remove(&w);
                        let gone: Vec<_> = m.edges.iter().copied().filter(|e| e.0 == w || e.1 == w).collect();
                        for e in gone {
                            m.edges.remove(&e);
                        }
                        dead.push(x);
                    }
                    5 => {
                        // removal of a node that is not there: already removed, or never existing but in range / out of range
                        let bound = a.inner().node_bound();
                        let mut cands: Vec<usize> = vec![bound, bound + 1];
                        if $stable {
                            cands.extend(dead.iter().copied().filter(|d| !live.iter().any(|x| x.0 == *d)));
                        }
                        let x = cands[rng.below(cands.len())].min(imax::<Ix>());
                        if live.iter().any(|l| l.0 == x) {
                            continue;
                        }
                        cx.log(|| format!("#{} remove_node({}) [absent]", step, x));
                        match catch(|| a.remove_node(NodeIndex::new(x))) {
                            Ok(r) => cx.ensure(r.is_none(), &format!("{}:remove_node-absent", $tn), || format!("remove_node({}) = {:?} for an absent node", x, r))?,
                            Err(p) => cx.ensure(false, &format!("{}:remove_node-absent-panics", $tn), || format!("remove_node({}) of an absent node panicked: {}", x, p.short()))?,
                        }
                    }
                    _ => {
                        cx.log(|| format!("#{} clone", step));
                        a = a.clone();
                    }
                }
                $check(cx, &a, &m)?;
            }
            // "later insertions are still decided correctly": a final batch of insertions among the survivors
            let live: Vec<(usize, u32)> = a.inner().node_references().map(|(i, w)| (i.index(), *w)).collect();
            if live.len() >= 2 {
                for _ in 0..8 {
                    let (x, y) = (live[rng.below(live.len())], live[rng.below(live.len())]);
                    next_w += 1;
                    let want_ok = x.0 != y.0 && !m.reaches(y.1, x.1);
                    cx.log(|| format!("final try_add_edge({}, {}, w{})", x.0, y.0, next_w));
                    let r = a.try_add_edge(NodeIndex::new(x.0), NodeIndex::new(y.0), next_w);
                    cx.ensure(r.is_ok() == want_ok, &format!("{}:late-insertion-decided-wrongly", $tn), || format!("try_add_edge({},{}) = {:?}, model says ok={}", x.0, y.0, r, want_ok))?;
                    if want_ok {
                        m.edges.insert((x.1, y.1, next_w));
                    }
                    $check(cx, &a, &m)?;
                }
            }
            let inner = a.into_inner();
            cx.ensure(inner.node_count() == m.nodes.len() && inner.edge_count() == m.edges.len(), &format!("{}:into_inner", $tn), || "into_inner differs from the model".into())?;
            cx.count_n("Acyclic:rejected-insertions", rejected);
            cx.count_n("Acyclic:removals-of-non-last-nodes", removed_nonlast);
            let mut h = kinds;
            h.add_str(&cx.config.clone());
            for e in &m.edges {
                h.add(((e.0 as u64) << 20) ^ e.1 as u64);
            }
            cx.note_case(h.0, nops >= 10 && removed_nonlast >= 1 && m.edges.len() >= 1);
            Ok(())
        }
    };
}

gen_acyclic!(history_graph, check_graph, DiGraph, "DiGraph", stable: false);
gen_acyclic!(history_stable, check_stable, StableDiGraph, "StableDiGraph", stable: true);

pub fn case(cx: &mut Cx, rng: &mut Rng) -> R {
    let w = rng.below(4);
    if rng.coin() {
        match w {
            0 => history_graph::<u8>(cx, rng, "u8"),
            1 => history_graph::<u16>(cx, rng, "u16"),
            2 => history_graph::<u32>(cx, rng, "u32"),
            _ => history_graph::<usize>(cx, rng, "usize"),
        }
    } else {
        match w {
            0 => history_stable::<u8>(cx, rng, "u8"),
            1 => history_stable::<u16>(cx, rng, "u16"),
            2 => history_stable::<u32>(cx, rng, "u32"),
            _ => history_stable::<usize>(cx, rng, "usize"),
        }
    }
}
