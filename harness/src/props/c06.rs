//! C06 - one consistent graph through the `visit` traits, for every graph type (in states with
//! vacancies / removed ids / shuffled indices) and for the adaptors, incl. depth-2 stackings.

use crate::abs::{gen, Abs, GenOpts};
use crate::corr::Back;
use crate::cx::{Cx, R};
use crate::rng::Rng;
use petgraph::visit::*;
use petgraph::Direction::{Incoming, Outgoing};

/// the graph a view is expected to present, in abs node ids
#[derive(Clone, Debug)]
pub struct View {
    pub directed: bool,
    pub nodes: Vec<usize>,
    pub el: Vec<(usize, usize, i64)>,
    /// a self-loop may show up once or twice per node view (UndirectedAdaptor)
    pub loop_lenient: bool,
}

impl View {
    pub fn of(abs: &Abs) -> View {
        View { directed: abs.directed, nodes: (0..abs.n).collect(), el: abs.edges.clone(), loop_lenient: false }
    }
    fn canon(&self, e: (usize, usize, i64)) -> (usize, usize, i64) {
        if self.directed || e.0 <= e.1 { e } else { (e.1, e.0, e.2) }
    }
    fn sorted_el(&self) -> Vec<(usize, usize, i64)> {
        let mut v: Vec<_> = self.el.iter().map(|&e| self.canon(e)).collect();
        v.sort();
        v
    }
    pub fn reversed(&self) -> View {
        let mut v = self.clone();
        if self.directed {
            for e in v.el.iter_mut() {
                std::mem::swap(&mut e.0, &mut e.1);
            }
        }
        v
    }
    pub fn symmetrised(&self) -> View {
        let mut v = self.clone();
        if v.directed {
            v.loop_lenient = true;
        }
        v.directed = false;
        v
    }
    pub fn node_induced(&self, keep: &[bool]) -> View {
        let mut v = self.clone();
        v.nodes.retain(|&n| keep[n]);
        v.el.retain(|e| keep[e.0] && keep[e.1]);
        v
    }
    pub fn edge_restricted(&self, pred: impl Fn(i64) -> bool) -> View {
        let mut v = self.clone();
        v.el.retain(|e| pred(e.2));
        v
    }
    /// (other endpoint, weight) of the edges "out of a" under the documented conventions
    fn out_of(&self, a: usize) -> Vec<(usize, i64)> {
        let mut v = vec![];
        for &(s, t, w) in &self.el {
            if self.directed {
                if s == a {
                    v.push((t, w));
                }
            } else if s == a {
                v.push((t, w));
            } else if t == a {
                v.push((s, w));
            }
        }
        v.sort();
        v
    }
    fn into_of(&self, a: usize) -> Vec<(usize, i64)> {
        if !self.directed {
            return self.out_of(a);
        }
        let mut v: Vec<(usize, i64)> = self.el.iter().filter(|e| e.1 == a).map(|e| (e.0, e.2)).collect();
        v.sort();
        v
    }
    fn adjacent(&self, a: usize, b: usize) -> bool {
        self.el.iter().any(|e| (e.0 == a && e.1 == b) || (!self.directed && e.0 == b && e.1 == a))
    }
}

/// compare observed (other, w) list with the expectation; with loop leniency a self-loop entry
/// may appear once or twice
fn same_incident(got: &[(usize, i64)], want: &[(usize, i64)], a: usize, lenient: bool) -> bool {
    let mut g = got.to_vec();
    g.sort();
    if g == want {
        return true;
    }
    if !lenient {
        return false;
    }
    // drop duplicate self-loop entries pairwise
    let mut g2: Vec<(usize, i64)> = vec![];
    let mut i = 0;
    while i < g.len() {
        g2.push(g[i]);
        if g[i].0 == a && i + 1 < g.len() && g[i + 1] == g[i] {
            i += 2;
        } else {
            i += 1;
        }
    }
    g2 == want
}

pub fn check_core<G>(cx: &mut Cx, g: G, back: &Back, exp: &View) -> R
where
    G: IntoNodeIdentifiers + IntoNodeReferences + NodeIndexable + IntoEdgeReferences + IntoNeighbors + IntoEdges + GraphProp + Copy,
    G::EdgeWeight: Copy + Into<i64>,
{
    cx.ensure(g.is_directed() == exp.directed, "GraphProp::is_directed", || format!("is_directed() = {}", g.is_directed()))?;
    let cap_n = exp.nodes.len() + exp.el.len() + 8;
    // nodes: each once, exactly the expected ones, indices below the bound, from_index inverse
    let mut seen = vec![];
    for id in g.node_identifiers().take(cap_n) {
        let a = back.abs(cx, g, id, "node_identifiers")?;
        let i = g.to_index(id);
        cx.ensure(i < g.node_bound(), "to_index>=node_bound", || format!("node {}: to_index {} with node_bound {}", a, i, g.node_bound()))?;
        cx.ensure(g.to_index(g.from_index(i)) == i, "from_index(to_index)", || format!("node {}: from_index({}) maps back to {}", a, i, g.to_index(g.from_index(i))))?;
        seen.push(a);
    }
    seen.sort_unstable();
    cx.ensure(seen == exp.nodes, "node_identifiers", || format!("node_identifiers yields {:?}, expected {:?}", seen, exp.nodes))?;
    let mut seen2 = vec![];
    for r in g.node_references().take(cap_n) {
        seen2.push(back.abs(cx, g, r.id(), "node_references")?);
    }
    seen2.sort_unstable();
    cx.ensure(seen2 == exp.nodes, "node_references", || format!("node_references yields {:?}, expected {:?}", seen2, exp.nodes))?;
    // the edge list
    let mut el = vec![];
    for e in g.edge_references().take(exp.el.len() * 2 + 8) {
        let (s, t) = (back.abs(cx, g, e.source(), "edge_references")?, back.abs(cx, g, e.target(), "edge_references")?);
        el.push(exp.canon((s, t, (*e.weight()).into())));
    }
    el.sort();
    cx.ensure(el == exp.sorted_el(), "edge_references", || format!("edge_references yields {:?}, expected {:?}", el, exp.sorted_el()))?;
    // per node
    let cap = exp.el.len() * 2 + 4;
    for &a in &exp.nodes {
        let id = g.from_index(back_index(g, back, a));
        let want = exp.out_of(a);
        let mut nb = vec![];
        for x in g.neighbors(id).take(cap) {
            nb.push(back.abs(cx, g, x, "neighbors")?);
        }
        let mut wn: Vec<usize> = want.iter().map(|x| x.0).collect();
        wn.sort_unstable();
        let nbw: Vec<(usize, i64)> = nb.iter().map(|&x| (x, 0)).collect();
        let wnw: Vec<(usize, i64)> = wn.iter().map(|&x| (x, 0)).collect();
        cx.ensure(same_incident(&nbw, &wnw, a, exp.loop_lenient), "neighbors", || format!("neighbors({}) = {:?}, expected {:?}", a, nb, wn))?;
        let mut es = vec![];
        let mut source_ok = true;
        for e in g.edges(id).take(cap) {
            let (s, t) = (back.abs(cx, g, e.source(), "edges")?, back.abs(cx, g, e.target(), "edges")?);
            if s != a {
                source_ok = false;
            }
            es.push((if s == a { t } else { s }, (*e.weight()).into()));
        }
        // judged on its own: a wrong orientation does not stop the content comparison
        let _ = cx.ensure(source_ok, "edges:source-is-not-the-queried-node", || format!("edges({}) yields an edge whose source() is not {}", a, a));
        cx.ensure(same_incident(&es, &want, a, exp.loop_lenient), "edges", || format!("edges({}) = {:?}, expected {:?}", a, es, want))?;
    }
    // the rest of the Iterator contract (size_hint, count, last, nth, fold) of every iterator the traits hand out
    {
        use crate::iterck::adapters;
        let salt = exp.el.len() * 5 + exp.nodes.len();
        let e3 = |e: G::EdgeRef| (g.to_index(e.source()), g.to_index(e.target()), (*e.weight()).into());
        adapters(cx, || g.node_identifiers(), |n| g.to_index(n), cap_n, "node_identifiers", salt)?;
        adapters(cx, || g.node_references(), |r| g.to_index(r.id()), cap_n, "node_references", salt)?;
        adapters(cx, || g.edge_references(), e3, exp.el.len() * 2 + 8, "edge_references", salt)?;
        for (k, &a) in exp.nodes.iter().enumerate() {
            if (k + salt) % 2 == 0 {
                let id = g.from_index(back_index(g, back, a));
                adapters(cx, || g.neighbors(id), |n| g.to_index(n), cap, "neighbors", salt)?;
                adapters(cx, || g.edges(id), e3, cap, "edges", salt)?;
            }
        }
    }
    Ok(())
}

fn back_index<G: NodeIndexable + IntoNodeIdentifiers + Copy>(g: G, back: &Back, a: usize) -> usize {
    // index of abs node a (scan: views may hide nodes)
    for id in g.node_identifiers() {
        if back.get(g, id) == Some(a) {
            return g.to_index(id);
        }
    }
    usize::MAX
}

pub fn check_directed_views<G>(cx: &mut Cx, g: G, back: &Back, exp: &View) -> R
where
    G: IntoNodeIdentifiers + NodeIndexable + IntoNeighborsDirected + IntoEdgesDirected + Copy,
    G::EdgeWeight: Copy + Into<i64>,
{
    let cap = exp.el.len() * 2 + 4;
    for &a in &exp.nodes {
        let id = g.from_index(back_index(g, back, a));
        for (dir, want) in [(Outgoing, exp.out_of(a)), (Incoming, exp.into_of(a))] {
            let mut nb = vec![];
            for x in g.neighbors_directed(id, dir).take(cap) {
                nb.push((back.abs(cx, g, x, "neighbors_directed")?, 0i64));
            }
            let wn: Vec<(usize, i64)> = { let mut v: Vec<(usize, i64)> = want.iter().map(|x| (x.0, 0)).collect(); v.sort(); v };
            cx.ensure(same_incident(&nb, &wn, a, exp.loop_lenient), "neighbors_directed", || format!("neighbors_directed({}, {:?}) = {:?}, expected {:?}", a, dir, nb, wn))?;
            let mut es = vec![];
            let mut orient_ok = true;
            for e in g.edges_directed(id, dir).take(cap) {
                let (s, t) = (back.abs(cx, g, e.source(), "edges_directed")?, back.abs(cx, g, e.target(), "edges_directed")?);
                let (q, other) = if dir == Outgoing { (s, t) } else { (t, s) };
                if q != a {
                    orient_ok = false;
                }
                es.push((if q == a { other } else { q }, (*e.weight()).into()));
            }
            let _ = cx.ensure(orient_ok, "edges_directed:queried-node-on-the-wrong-side", || format!("edges_directed({}, {:?}) yields an edge with {} on the wrong side", a, dir, a));
            cx.ensure(same_incident(&es, &want, a, exp.loop_lenient), "edges_directed", || format!("edges_directed({}, {:?}) = {:?}, expected {:?}", a, dir, es, want))?;
        }
    }
    {
        use crate::iterck::adapters;
        let salt = exp.el.len() * 3 + exp.nodes.len();
        let e3 = |e: G::EdgeRef| (g.to_index(e.source()), g.to_index(e.target()), (*e.weight()).into());
        for (k, &a) in exp.nodes.iter().enumerate() {
            if (k + salt) % 2 == 1 {
                let id = g.from_index(back_index(g, back, a));
                for dir in [Outgoing, Incoming] {
                    adapters(cx, || g.neighbors_directed(id, dir), |n| g.to_index(n), cap, "neighbors_directed", salt)?;
                    adapters(cx, || g.edges_directed(id, dir), e3, cap, "edges_directed", salt)?;
                }
            }
        }
    }
    Ok(())
}

pub fn check_node_count<G: NodeCount + Copy>(cx: &mut Cx, g: G, exp: &View) -> R {
    cx.ensure(g.node_count() == exp.nodes.len(), "node_count", || format!("node_count() = {}, nodes yielded {}", g.node_count(), exp.nodes.len()))
}
pub fn check_edge_count<G: EdgeCount + Copy>(cx: &mut Cx, g: G, exp: &View) -> R {
    cx.ensure(g.edge_count() == exp.el.len(), "edge_count", || format!("edge_count() = {}, edges yielded {}", g.edge_count(), exp.el.len()))
}
pub fn check_compact<G: NodeCompactIndexable + NodeCount + IntoNodeIdentifiers + Copy>(cx: &mut Cx, g: G) -> R {
    let n = g.node_count();
    cx.ensure(g.node_bound() == n, "NodeCompactIndexable:bound!=count", || format!("node_bound {} node_count {}", g.node_bound(), n))?;
    let mut idx: Vec<usize> = g.node_identifiers().map(|i| g.to_index(i)).collect();
    idx.sort_unstable();
    cx.ensure(idx == (0..n).collect::<Vec<_>>(), "NodeCompactIndexable:indices-not-0..n", || format!("{:?}", idx))
}
pub fn check_adjacency<G>(cx: &mut Cx, g: G, back: &Back, exp: &View) -> R
where
    G: GetAdjacencyMatrix + NodeIndexable + IntoNodeIdentifiers + Copy,
{
    let m = g.adjacency_matrix();
    for &a in &exp.nodes {
        let ia = g.from_index(back_index(g, back, a));
        for &b in &exp.nodes {
            let ib = g.from_index(back_index(g, back, b));
            let got = g.is_adjacent(&m, ia, ib);
            cx.ensure(got == exp.adjacent(a, b), "is_adjacent", || format!("is_adjacent({},{}) = {}, an edge {}->{} exists: {}", a, b, got, a, b, exp.adjacent(a, b)))?;
        }
    }
    Ok(())
}
pub fn check_edge_indexable<G>(cx: &mut Cx, g: G) -> R
where
    G: EdgeIndexable + IntoEdgeReferences + IntoEdges + IntoNodeIdentifiers + Copy,
    G::EdgeId: PartialEq + std::fmt::Debug,
{
    let eb = g.edge_bound();
    for e in g.edge_references() {
        let i = EdgeIndexable::to_index(&g, e.id());
        cx.ensure(i < eb, "EdgeIndexable:to_index>=edge_bound", || format!("edge id {:?}: index {} bound {}", e.id(), i, eb))?;
        let back_id = EdgeIndexable::from_index(&g, i);
        cx.ensure(EdgeIndexable::to_index(&g, back_id) == i, "EdgeIndexable:from_index(to_index)", || format!("edge id {:?} -> {} -> {:?}", e.id(), i, back_id))?;
    }
    for n in g.node_identifiers() {
        for e in g.edges(n) {
            let i = EdgeIndexable::to_index(&g, e.id());
            cx.ensure(i < eb, "EdgeIndexable:to_index(id-from-edges)>=edge_bound", || format!("edge id {:?} from edges(): index {} bound {}", e.id(), i, eb))?;
        }
    }
    Ok(())
}

/// everything a full-featured base type (Graph, StableGraph, GraphMap, directed MatrixGraph) offers,
/// plus its adaptors and depth-2 stackings
macro_rules! full_suite {
    ($cx:expr, $rng:expr, $abs:expr, $g:expr, $ids:expr, $name:expr, edge_indexable: $ei:tt, compact: $compact:tt, bitset: $compact_not:tt) => {{
        let g = $g;
        let abs: &Abs = $abs;
        let back = Back::new(g, $ids);
        let base = View::of(abs);
        $cx.config = $name.to_string();
        let _ = check_core($cx, g, &back, &base);
        let _ = check_directed_views($cx, g, &back, &base);
        let _ = check_node_count($cx, g, &base);
        let _ = check_edge_count($cx, g, &base);
        let _ = check_adjacency($cx, g, &back, &base);
        full_suite!(@opt $ei, { let _ = check_edge_indexable($cx, g); });
        full_suite!(@opt $compact, { let _ = check_compact($cx, g); });
        // ---- Reversed
        let rv = base.reversed();
        $cx.config = format!("Reversed<{}>", $name);
        let r = Reversed(g);
        let _ = check_core($cx, r, &back, &rv);
        let _ = check_directed_views($cx, r, &back, &rv);
        let _ = check_node_count($cx, r, &rv);
        let _ = check_edge_count($cx, r, &rv);
        let _ = check_adjacency($cx, r, &back, &rv);
        $cx.config = format!("Reversed<Reversed<{}>>", $name);
        let rr = Reversed(Reversed(g));
        let _ = check_core($cx, rr, &back, &base);
        let _ = check_directed_views($cx, rr, &back, &base);
        // ---- UndirectedAdaptor (strict on a directed base, set-level leniency for loops)
        if abs.directed {
            let uv = base.symmetrised();
            $cx.config = "UndirectedAdaptor<any-base>".to_string();
            let u = UndirectedAdaptor(g);
            let _ = check_core($cx, u, &back, &uv);
            let _ = check_node_count($cx, u, &uv);
            $cx.config = "UndirectedAdaptor<Reversed<any-base>>".to_string();
            let ur = UndirectedAdaptor(Reversed(g));
            let _ = check_core($cx, ur, &back, &rv.symmetrised());
        }
        // ---- NodeFiltered by closure / FixedBitSet / HashSet
        let keep: Vec<bool> = match $rng.below(4) {
            0 => vec![true; abs.n],
            1 => vec![false; abs.n],
            2 => (0..abs.n).map(|i| i % 2 == 0).collect(),
            _ => (0..abs.n).map(|_| $rng.chance(2, 3)).collect(),
        };
        let nv = base.node_induced(&keep);
        let ids = $ids;
        let back_ref = &back;
        let keep_ref = &keep;
        let pred = move |n| back_ref.get(g, n).map_or(false, |a| keep_ref[a]);
        $cx.config = format!("NodeFiltered<{},closure>", $name);
        let nf = NodeFiltered(g, pred);
        let _ = check_core($cx, &nf, &back, &nv);
        let _ = check_directed_views($cx, &nf, &back, &nv);
        let mut bits = fixedbitset_of(NodeIndexable::node_bound(&g));
        let mut hs = hashbrown::HashSet::new();
        for a in 0..abs.n {
            if keep[a] {
                bits.insert(NodeIndexable::to_index(&g, ids[a]));
                hs.insert(ids[a]);
            }
        }
        full_suite!(@opt $compact_not, {
            $cx.config = format!("NodeFiltered<{},FixedBitSet>", $name);
            let nfb = NodeFiltered(g, &bits);
            let _ = check_core($cx, &nfb, &back, &nv);
        });
        $cx.config = format!("NodeFiltered<{},HashSet>", $name);
        let nfh = NodeFiltered(g, &hs);
        let _ = check_core($cx, &nfh, &back, &nv);
        let _ = check_directed_views($cx, &nfh, &back, &nv);
        // depth 2: Reversed over NodeFiltered, NodeFiltered over Reversed
        $cx.config = format!("Reversed<NodeFiltered<{}>>", $name);
        let rnf = Reversed(&nf);
        let _ = check_core($cx, rnf, &back, &nv.reversed());
        let _ = check_directed_views($cx, rnf, &back, &nv.reversed());
        $cx.config = format!("NodeFiltered<Reversed<{}>>", $name);
        let nfr = NodeFiltered(Reversed(g), pred);
        let _ = check_core($cx, &nfr, &back, &nv.reversed());
        // ---- EdgeFiltered
        let thr = $rng.range(0, 9);
        let ev = base.edge_restricted(|w| w <= thr);
        $cx.config = format!("EdgeFiltered<{}>", $name);
        let ef = EdgeFiltered::from_fn(g, |e| { let w: i64 = (*e.weight()).into(); w <= thr });
        let _ = check_core($cx, &ef, &back, &ev);
        let _ = check_directed_views($cx, &ef, &back, &ev);
        let _ = check_node_count($cx, &ef, &ev);
        $cx.config = format!("EdgeFiltered<NodeFiltered<{}>>", $name);
        let efnf = EdgeFiltered::from_fn(&nf, |e| { let w: i64 = (*e.weight()).into(); w <= thr });
        let _ = check_core($cx, &efnf, &back, &nv.edge_restricted(|w| w <= thr));
        $cx.config = format!("Reversed<EdgeFiltered<{}>>", $name);
        let ref_ = Reversed(&ef);
        let _ = check_core($cx, ref_, &back, &ev.reversed());
    }};
    (@opt yes, $b:block) => { $b };
    (@opt no, $b:block) => {};
}

/// base types without the directed-view traits (undirected MatrixGraph, Csr, adj::List)
macro_rules! basic_suite {
    ($cx:expr, $rng:expr, $abs:expr, $g:expr, $ids:expr, $name:expr, compact: $compact:tt) => {{
        let g = $g;
        let abs: &Abs = $abs;
        let back = Back::new(g, $ids);
        let base = View::of(abs);
        $cx.config = $name.to_string();
        let _ = check_core($cx, g, &back, &base);
        let _ = check_node_count($cx, g, &base);
        let _ = check_edge_count($cx, g, &base);
        let _ = check_adjacency($cx, g, &back, &base);
        full_suite!(@opt $compact, { let _ = check_compact($cx, g); });
        let keep: Vec<bool> = (0..abs.n).map(|_| $rng.chance(2, 3)).collect();
        let nv = base.node_induced(&keep);
        let back_ref = &back;
        let keep_ref = &keep;
        $cx.config = format!("NodeFiltered<{},closure>", $name);
        let nf = NodeFiltered(g, move |n| back_ref.get(g, n).map_or(false, |a| keep_ref[a]));
        let _ = check_core($cx, &nf, &back, &nv);
        let thr = $rng.range(0, 9);
        $cx.config = format!("EdgeFiltered<{}>", $name);
        let ef = EdgeFiltered::from_fn(g, |e| { let w: i64 = (*e.weight()).into(); w <= thr });
        let _ = check_core($cx, &ef, &back, &base.edge_restricted(|w| w <= thr));
    }};
}

fn fixedbitset_of(n: usize) -> fixedbitset::FixedBitSet {
    fixedbitset::FixedBitSet::with_capacity(n)
}

pub fn case(cx: &mut Cx, rng: &mut Rng) -> R {
    let nmax = if cx.small { 5 } else if rng.chance(1, if cx.thorough { 40 } else { 150 }) { 40 } else if rng.chance(1, 10) { 12 } else { 7 };
    let abs = gen(rng, &GenOpts::new(nmax));
    cx.log(|| abs.describe());
    cx.note_case(abs.hash(), abs.n >= 3 && abs.m() >= 2);
    cx.count(&format!("family:{}", abs.family));
    if rng.chance(2, 3) {
        with_enc!(one, &abs, rng, i64, |w| w,
            directed: [GraphU8, GraphShuf, GraphUsize, StableHoles, StableU8],
            undirected: [GraphU8, GraphShuf, GraphUsize, StableHoles, StableU8],
            |g, ids, tag| {
                cx.count(&format!("cell:full/{}", tag.name()));
                full_suite!(cx, rng, &abs, g, ids, tag.name(), edge_indexable: yes, compact: no, bitset: yes);
            });
        with_enc!(one, &abs, rng, i64, |w| w,
            directed: [GMap],
            undirected: [GMap],
            |g, ids, tag| {
                cx.count(&format!("cell:full/{}", tag.name()));
                full_suite!(cx, rng, &abs, g, ids, tag.name(), edge_indexable: yes, compact: yes, bitset: no);
            });
        if abs.directed {
            with_enc!(one, &abs, rng, i64, |w| w,
                directed: [Matrix],
                undirected: [],
                |g, ids, tag| {
                    cx.count(&format!("cell:full/{}", tag.name()));
                    full_suite!(cx, rng, &abs, g, ids, tag.name(), edge_indexable: no, compact: no, bitset: yes);
                });
        }
    } else {
        with_enc!(one, &abs, rng, i64, |w| w,
            directed: [CsrT, ListT],
            undirected: [CsrT],
            |g, ids, tag| {
                cx.count(&format!("cell:basic/{}", tag.name()));
                basic_suite!(cx, rng, &abs, g, ids, tag.name(), compact: yes);
            });
        if !abs.directed {
            with_enc!(one, &abs, rng, i64, |w| w,
                directed: [],
                undirected: [Matrix],
                |g, ids, tag| {
                    cx.count(&format!("cell:basic/{}", tag.name()));
                    basic_suite!(cx, rng, &abs, g, ids, tag.name(), compact: no);
                });
        }
    }
    // Frozen<Graph>: identical graph through every trait
    {
        use petgraph::graph::{Frozen, Graph};
        macro_rules! frozen {
            ($Ty:ty) => {{
                let e = crate::enc::graph_shuffled::<$Ty, u32, i64>(&abs, rng, |w| w);
                let ids = e.ids.clone();
                // the Into* traits are delegated for Frozen<G> with G itself a graph reference
                let mut gref: &Graph<u32, i64, $Ty, u32> = &e.g;
                let fr = Frozen::new(&mut gref);
                let back = Back::new(&fr, &ids);
                let base = View::of(&abs);
                cx.config = "Frozen<&Graph>".into();
                let _ = check_core(cx, &fr, &back, &base);
                let _ = check_directed_views(cx, &fr, &back, &base);
                let _ = check_node_count(cx, &fr, &base);
                let _ = check_edge_count(cx, &fr, &base);
                let _ = check_adjacency(cx, &fr, &back, &base);
            }};
        }
        if abs.directed {
            frozen!(petgraph::Directed)
        } else {
            frozen!(petgraph::Undirected)
        }
    }
    Ok(())
}
