//! C04 - `MatrixGraph` across growth, removal and id reuse against a simple-graph model keyed
//! by node id, with the flattened-matrix storage inspected through the verif-hooks exporter.

use crate::cx::{catch, Cx, R};
use crate::rng::Rng;
use petgraph::graph::IndexType;
use petgraph::matrix_graph::{MatrixGraph, NodeIndex, NotZero, Nullable};
use petgraph::visit::{EdgeRef, IntoEdgeReferences, IntoNodeIdentifiers, IntoNodeReferences, NodeIndexable};
use petgraph::Direction::{Incoming, Outgoing};
use petgraph::{Directed, EdgeType, Undirected};
use std::collections::hash_map::RandomState;
use std::collections::BTreeMap;

type MG<Ty, Null, Ix> = MatrixGraph<u32, i32, RandomState, Ty, Null, Ix>;

struct SM {
    directed: bool,
    nodes: BTreeMap<usize, u32>,
    edges: BTreeMap<(usize, usize), i32>,
}
impl SM {
    fn key(&self, a: usize, b: usize) -> (usize, usize) {
        if self.directed || a <= b { (a, b) } else { (b, a) }
    }
    fn out(&self, a: usize) -> Vec<(usize, i32)> {
        let mut v = vec![];
        for (&(x, y), &w) in &self.edges {
            if x == a {
                v.push((y, w));
            } else if !self.directed && y == a {
                v.push((x, w));
            }
        }
        v.sort();
        v
    }
    fn inc(&self, a: usize) -> Vec<(usize, i32)> {
        let mut v: Vec<(usize, i32)> = self.edges.iter().filter(|(&(_, y), _)| y == a).map(|(&(x, _), &w)| (x, w)).collect();
        v.sort();
        v
    }
}

fn imax<Ix: IndexType>() -> usize {
    <Ix as IndexType>::max().index()
}

fn storage_invariants<Ty: EdgeType, Null: Nullable<Wrapped = i32>, Ix: IndexType>(cx: &mut Cx, g: &MG<Ty, Null, Ix>, m: &SM) -> R {
    let (cap, nb_edges, occupied, removed, upper) = g.verif_storage();
    cx.ensure(nb_edges == m.edges.len(), "MatrixGraph:raw-nb_edges", || format!("cached edge count {}, model {}", nb_edges, m.edges.len()))?;
    let mut want: Vec<usize> = m
        .edges
        .keys()
        .map(|&(a, b)| if m.directed { a * cap + b } else { let (r, c) = if a > b { (a, b) } else { (b, a) }; r * (r + 1) / 2 + c })
        .collect();
    want.sort_unstable();
    cx.ensure(occupied == want, "MatrixGraph:raw-occupied-cells", || {
        format!("occupied cells {:?}, cells of the model's edges {:?} (capacity {})", occupied, want, cap)
    })?;
    for r in &removed {
        cx.ensure(!m.nodes.contains_key(r), "MatrixGraph:raw-live-id-marked-removed", || format!("id {} is live but listed as removed", r))?;
        cx.ensure(*r < upper, "MatrixGraph:raw-removed-id-beyond-upper-bound", || format!("removed id {} >= upper bound {}", r, upper))?;
    }
    let maxlive = m.nodes.keys().next_back().map_or(0, |x| x + 1);
    cx.ensure(upper >= maxlive, "MatrixGraph:raw-upper-bound", || format!("upper bound {} below live id {}", upper, maxlive - 1))?;
    cx.ensure(upper - removed.len() == m.nodes.len(), "MatrixGraph:raw-id-accounting", || format!("upper {} - removed {} != live {}", upper, removed.len(), m.nodes.len()))?;
    Ok(())
}

macro_rules! gen_dir_sweep {
    ($name:ident, $Ty:ty, $has_dir:tt) => {
        fn $name<Null: Nullable<Wrapped = i32>, Ix: IndexType>(cx: &mut Cx, g: &MG<$Ty, Null, Ix>, m: &SM, rng: &mut Rng, full: bool) -> R {
            let ni = |i: usize| NodeIndex::<Ix>::new(i);
            cx.ensure(g.node_count() == m.nodes.len(), "MatrixGraph:node_count", || format!("{} vs model {}", g.node_count(), m.nodes.len()))?;
            cx.ensure(g.edge_count() == m.edges.len(), "MatrixGraph:edge_count", || format!("edge_count() = {}, model {}", g.edge_count(), m.edges.len()))?;
            let cap = m.nodes.len() + 3;
            let mut ids: Vec<usize> = g.node_identifiers().take(cap).map(|x| x.index()).collect();
            ids.sort_unstable();
            let live: Vec<usize> = m.nodes.keys().copied().collect();
            cx.ensure(ids == live, "MatrixGraph:node_identifiers", || format!("{:?} vs model {:?}", ids, live))?;
            let mut refs: Vec<(usize, u32)> = g.node_references().take(cap).map(|(i, w)| (i.index(), *w)).collect();
            refs.sort_unstable();
            cx.ensure(refs == m.nodes.iter().map(|(&k, &v)| (k, v)).collect::<Vec<_>>(), "MatrixGraph:node_references", || format!("{:?}", refs))?;
            let bound = live.last().map_or(0, |x| x + 1);
            cx.ensure(g.node_bound() >= bound, "MatrixGraph:node_bound", || format!("node_bound {} < {}", g.node_bound(), bound))?;
            // edge_references: every edge once
            let mut er: Vec<((usize, usize), i32)> = g.edge_references().take(m.edges.len() + 3).map(|e| (m.key(e.source().index(), e.target().index()), *e.weight())).collect();
            er.sort_unstable();
            cx.ensure(er == m.edges.iter().map(|(&k, &w)| (k, w)).collect::<Vec<_>>(), "MatrixGraph:edge_references", || format!("edge_references {:?}, model {:?}", er, m.edges))?;
            // per node (all for small graphs, a sample otherwise) + an absent id
            let mut probe: Vec<usize> = if full || live.len() <= 14 { live.clone() } else { (0..8).map(|_| live[rng.below(live.len())]).collect() };
            let absent = (0..bound + 2).find(|i| !m.nodes.contains_key(i)).unwrap();
            if absent <= imax::<Ix>() {
                probe.push(absent);
            }
            for &a in &probe {
                let is_live = m.nodes.contains_key(&a);
                cx.ensure(g.get_node_weight(ni(a)).copied() == m.nodes.get(&a).copied(), "MatrixGraph:get_node_weight", || format!("get_node_weight({}) = {:?}, model {:?}", a, g.get_node_weight(ni(a)), m.nodes.get(&a)))?;
                let want_out = if is_live { m.out(a) } else { vec![] };
                let lim = bound + 3;
                let mut got: Vec<usize> = g.neighbors(ni(a)).take(lim).map(|x| x.index()).collect();
                got.sort_unstable();
                cx.ensure(got == want_out.iter().map(|x| x.0).collect::<Vec<_>>(), "MatrixGraph:neighbors", || format!("neighbors({}) = {:?}, model {:?}", a, got, want_out))?;
                let mut got: Vec<(usize, usize, i32)> = g.edges(ni(a)).take(lim).map(|(x, y, w)| (x.index(), y.index(), *w)).collect();
                got.sort_unstable();
                let want: Vec<(usize, usize, i32)> = want_out.iter().map(|&(b, w)| (a, b, w)).collect();
                cx.ensure(got == want, "MatrixGraph:edges", || format!("edges({}) = {:?}, model {:?}", a, got, want))?;
                gen_dir_sweep!(@dir $has_dir, {
                    let want_in = if is_live { m.inc(a) } else { vec![] };
                    let mut got: Vec<usize> = g.neighbors_directed(ni(a), Incoming).take(lim).map(|x| x.index()).collect();
                    got.sort_unstable();
                    cx.ensure(got == want_in.iter().map(|x| x.0).collect::<Vec<_>>(), "MatrixGraph:neighbors_directed(Incoming)", || format!("neighbors_directed({}, Incoming) = {:?}, model {:?}", a, got, want_in))?;
                    let mut got: Vec<usize> = g.neighbors_directed(ni(a), Outgoing).take(lim).map(|x| x.index()).collect();
                    got.sort_unstable();
                    cx.ensure(got == want_out.iter().map(|x| x.0).collect::<Vec<_>>(), "MatrixGraph:neighbors_directed(Outgoing)", || format!("neighbors_directed({}, Outgoing) = {:?}", a, got))?;
                    let mut got: Vec<(usize, usize, i32)> = g.edges_directed(ni(a), Incoming).take(lim).map(|(x, y, w)| (x.index(), y.index(), *w)).collect();
                    got.sort_unstable();
                    // documented: for Incoming the tuple is (a, source-of-the-edge, w)? accept either orientation of the pair
                    let mut norm: Vec<(usize, i32)> = got.iter().map(|&(x, y, w)| (if x == a { y } else { x }, w)).collect();
                    norm.sort_unstable();
                    cx.ensure(norm == want_in, "MatrixGraph:edges_directed(Incoming)", || format!("edges_directed({}, Incoming) = {:?}, model sources {:?}", a, got, want_in))?;
                });
                for &b in &live {
                    let want = m.edges.get(&m.key(a, b)).copied().filter(|_| is_live);
                    cx.ensure(g.has_edge(ni(a), ni(b)) == want.is_some(), "MatrixGraph:has_edge", || format!("has_edge({},{}) = {}, model {:?}", a, b, g.has_edge(ni(a), ni(b)), want))?;
                    cx.ensure(g.get_edge_weight(ni(a), ni(b)).copied() == want, "MatrixGraph:get_edge_weight", || format!("get_edge_weight({},{}) = {:?}, model {:?}", a, b, g.get_edge_weight(ni(a), ni(b)), want))?;
                    if !m.directed {
                        cx.ensure(g.has_edge(ni(b), ni(a)) == want.is_some(), "MatrixGraph:has_edge-not-symmetric", || format!("undirected has_edge({},{}) differs from ({},{})", b, a, a, b))?;
                    }
                }
            }
            storage_invariants(cx, g, m)
        }
    };
    (@dir yes, $b:block) => { $b };
    (@dir no, $b:block) => {};
}
gen_dir_sweep!(sweep_dir, Directed, yes);
gen_dir_sweep!(sweep_und, Undirected, no);

trait Sweepable: EdgeType {
    fn sweep<Null: Nullable<Wrapped = i32>, Ix: IndexType>(cx: &mut Cx, g: &MG<Self, Null, Ix>, m: &SM, rng: &mut Rng, full: bool) -> R
    where
        Self: Sized;
}
impl Sweepable for Directed {
    fn sweep<Null: Nullable<Wrapped = i32>, Ix: IndexType>(cx: &mut Cx, g: &MG<Self, Null, Ix>, m: &SM, rng: &mut Rng, full: bool) -> R {
        sweep_dir(cx, g, m, rng, full)
    }
}
impl Sweepable for Undirected {
    fn sweep<Null: Nullable<Wrapped = i32>, Ix: IndexType>(cx: &mut Cx, g: &MG<Self, Null, Ix>, m: &SM, rng: &mut Rng, full: bool) -> R {
        sweep_und(cx, g, m, rng, full)
    }
}

fn history<Ty: EdgeType + Sweepable, Null: Nullable<Wrapped = i32>, Ix: IndexType>(cx: &mut Cx, rng: &mut Rng, cfg: &str) -> R {
    let directed = Ty::is_directed();
    cx.config = cfg.to_string();
    let small = cx.small;
    let growth = !small && rng.chance(1, 2); // growth run: up to 70 nodes across capacity steps
    let limit_run = imax::<Ix>() == 255 && !small && rng.chance(1, 12);
    let maxn = if limit_run { 255 } else if growth { rng.urange(10, 70) } else if small { 8 } else { 12 };
    let cap0 = rng.below(71);
    let mut g: MG<Ty, Null, Ix> = match rng.below(3) {
        0 => MatrixGraph::with_capacity(cap0),
        1 => MatrixGraph::with_capacity(rng.below(6)),
        _ => MatrixGraph::default(),
    };
    cx.log(|| format!("start (with_capacity {} / small / default), maxn {}", cap0, maxn));
    let mut m = SM { directed, nodes: BTreeMap::new(), edges: BTreeMap::new() };
    let mut next_w = 1i32;
    let nops = if small { rng.urange(10, 50) } else if growth || limit_run { rng.urange(100, 700) } else { rng.urange(30, 300) };
    let mut kinds = crate::cx::H::new();
    let mut removed_nodes = 0;
    let mut reused = 0;
    let mut ever_removed: std::collections::BTreeSet<usize> = Default::default();
    for step in 0..nops {
        cx.ops += 1;
        let live: Vec<usize> = m.nodes.keys().copied().collect();
        let n = live.len();
        let weights: [u32; 9] = if growth && n < maxn { [40, 40, 6, 3, 5, 2, 0, 2, 1] } else { [14, 40, 10, 8, 12, 4, 1, 3, 2] };
        let op = rng.weighted(&weights);
        kinds.add(op as u64);
        match op {
            0 => {
                if n >= maxn {
                    continue;
                }
                next_w += 1;
                let w = next_w as u32;
                let at_limit = n >= imax::<Ix>() && imax::<Ix>() != usize::MAX;
                let use_try = rng.coin();
                cx.log(|| format!("#{} {}(w{})", step, if use_try { "try_add_node" } else { "add_node" }, w));
                let r = if use_try { Ok(g.try_add_node(w).ok()) } else { catch(|| Some(g.add_node(w))) };
                match r {
                    Ok(Some(i)) => {
                        let i = i.index();
                        cx.ensure(!at_limit, "MatrixGraph:add_node-beyond-limit", || format!("id {} handed out with {} nodes", i, n))?;
                        cx.ensure(!m.nodes.contains_key(&i), "MatrixGraph:new-id-is-live", || format!("add_node returned id {} which is live", i))?;
                        if ever_removed.contains(&i) {
                            reused += 1;
                        }
                        m.nodes.insert(i, w);
                    }
                    Ok(None) => cx.ensure(at_limit, "MatrixGraph:try_add_node-unexpected-error", || format!("error with {} nodes", n))?,
                    Err(p) => cx.ensure(at_limit, "MatrixGraph:add_node-unexpected-panic", || format!("panicked: {}", p.short()))?,
                }
            }
            1 | 2 => {
                if n == 0 {
                    continue;
                }
                // growth runs connect the newest nodes (cells in the freshly grown region) as well as old ones
                let a = if rng.chance(1, 3) { *live.last().unwrap() } else { live[rng.below(n)] };
                let b = if rng.chance(1, 8) { a } else { live[rng.below(n)] };
                next_w += 1;
                let w = next_w;
                let key = m.key(a, b);
                let old = m.edges.get(&key).copied();
                let (ai, bi) = (NodeIndex::<Ix>::new(a), NodeIndex::<Ix>::new(b));
                let route = rng.below(4);
                match route {
                    0 if old.is_none() => {
                        cx.log(|| format!("#{} add_edge({}, {}, w{})", step, a, b, w));
                        match catch(|| g.add_edge(ai, bi, w)) {
                            Ok(()) => {
                                m.edges.insert(key, w);
                            }
                            Err(p) => cx.ensure(false, "MatrixGraph:add_edge-unexpected-panic", || format!("add_edge({},{}) panicked: {}", a, b, p.short()))?,
                        }
                    }
                    1 => {
                        cx.log(|| format!("#{} try_update_edge({}, {}, w{})", step, a, b, w));
                        let r = g.try_update_edge(ai, bi, w);
                        cx.ensure(r == Ok(old), "MatrixGraph:try_update_edge-result", || format!("try_update_edge({},{}) between existing nodes = {:?}, model Ok({:?})", a, b, r, old))?;
                        m.edges.insert(key, w);
                    }
                    2 => {
                        cx.log(|| format!("#{} add_or_update_edge({}, {}, w{})", step, a, b, w));
                        let r = g.add_or_update_edge(ai, bi, w);
                        cx.ensure(r == Ok(old), "MatrixGraph:add_or_update_edge-result", || format!("add_or_update_edge({},{}) = {:?}, model Ok({:?})", a, b, r, old))?;
                        m.edges.insert(key, w);
                    }
                    _ => {
                        cx.log(|| format!("#{} update_edge({}, {}, w{})", step, a, b, w));
                        let r = g.update_edge(ai, bi, w);
                        cx.ensure(r == old, "MatrixGraph:update_edge-result", || format!("update_edge({},{}) = {:?}, previous weight {:?}", a, b, r, old))?;
                        m.edges.insert(key, w);
                    }
                }
            }
            3 => {
                if n == 0 {
                    continue;
                }
                let a = live[rng.below(n)];
                cx.log(|| format!("#{} remove_node({})", step, a));
                let r = g.remove_node(NodeIndex::new(a));
                cx.ensure(Some(r) == m.nodes.get(&a).copied(), "MatrixGraph:remove_node-result", || format!("remove_node({}) = {}, model {:?}", a, r, m.nodes.get(&a)))?;
                m.nodes.remove(&a);
                let gone: Vec<(usize, usize)> = m.edges.keys().copied().filter(|&(x, y)| x == a || y == a).collect();
                for k in gone {
                    m.edges.remove(&k);
                }
                removed_nodes += 1;
                ever_removed.insert(a);
            }
            4 => {
                if n == 0 {
                    continue;
                }
                let (a, b) = if !m.edges.is_empty() && rng.chance(3, 4) {
                    let ks: Vec<_> = m.edges.keys().copied().collect();
                    let (x, y) = ks[rng.below(ks.len())];
                    if !directed && rng.coin() { (y, x) } else { (x, y) }
                } else {
                    (live[rng.below(n)], live[rng.below(n)])
                };
                let key = m.key(a, b);
                let want = m.edges.get(&key).copied();
                let (ai, bi) = (NodeIndex::<Ix>::new(a), NodeIndex::<Ix>::new(b));
                if rng.coin() {
                    cx.log(|| format!("#{} try_remove_edge({}, {})", step, a, b));
                    let r = g.try_remove_edge(ai, bi);
                    cx.ensure(r == want, "MatrixGraph:try_remove_edge-result", || format!("try_remove_edge({},{}) = {:?}, model {:?}", a, b, r, want))?;
                    m.edges.remove(&key);
                } else {
                    cx.log(|| format!("#{} remove_edge({}, {})", step, a, b));
                    match catch(|| g.remove_edge(ai, bi)) {
                        Ok(r) => {
                            cx.ensure(Some(r) == want, "MatrixGraph:remove_edge-result", || format!("remove_edge({},{}) = {}, model {:?}", a, b, r, want))?;
                            m.edges.remove(&key);
                        }
                        Err(p) => cx.ensure(want.is_none(), "MatrixGraph:remove_edge-unexpected-panic", || format!("remove_edge({},{}) panicked: {}", a, b, p.short()))?,
                    }
                }
            }
            5 => {
                if n == 0 {
                    continue;
                }
                next_w += 1;
                if rng.coin() || m.edges.is_empty() {
                    let a = live[rng.below(n)];
                    cx.log(|| format!("#{} node weight of {} := w{}", step, a, next_w));
                    if rng.coin() {
                        *g.node_weight_mut(NodeIndex::new(a)) = next_w as u32;
                    } else {
                        *g.get_node_weight_mut(NodeIndex::new(a)).unwrap() = next_w as u32;
                    }
                    m.nodes.insert(a, next_w as u32);
                } else {
                    let ks: Vec<_> = m.edges.keys().copied().collect();
                    let (x, y) = ks[rng.below(ks.len())];
                    let (a, b) = if !directed && rng.coin() { (y, x) } else { (x, y) };
                    cx.log(|| format!("#{} edge weight of ({}, {}) := w{}", step, a, b, next_w));
                    if rng.coin() {
                        *g.edge_weight_mut(NodeIndex::new(a), NodeIndex::new(b)) = next_w;
                    } else {
                        *g.get_edge_weight_mut(NodeIndex::new(a), NodeIndex::new(b)).unwrap() = next_w;
                    }
                    m.edges.insert((x, y), next_w);
                }
            }
            6 => {
                cx.log(|| format!("#{} clear()", step));
                g.clear();
                m.nodes.clear();
                m.edges.clear();
            }
            7 => {
                // (MatrixGraph<.., NotZero<_>> is not Clone; a full sweep instead)
                cx.log(|| format!("#{} full sweep", step));
                Ty::sweep(cx, &g, &m, rng, true)?;
            }
            _ => {
                // extend_with_edges between existing nodes, new pairs only (add_edge panics on duplicates)
                if n == 0 {
                    continue;
                }
                let mut es = vec![];
                for _ in 0..rng.urange(1, 3) {
                    let (a, b) = (live[rng.below(n)], live[rng.below(n)]);
                    if !m.edges.contains_key(&m.key(a, b)) && !es.iter().any(|e: &(usize, usize, i32)| m.key(e.0, e.1) == m.key(a, b)) {
                        next_w += 1;
                        es.push((a, b, next_w));
                    }
                }
                cx.log(|| format!("#{} extend_with_edges({:?})", step, es));
                g.extend_with_edges(es.iter().map(|&(a, b, w)| (NodeIndex::<Ix>::new(a), NodeIndex::<Ix>::new(b), w)));
                for &(a, b, w) in &es {
                    m.edges.insert(m.key(a, b), w);
                }
            }
        }
        let nn = m.nodes.len();
        if nn <= 14 || step % 12 == 11 {
            Ty::sweep(cx, &g, &m, rng, false)?;
        } else {
            storage_invariants(cx, &g, &m)?;
        }
    }
    Ty::sweep(cx, &g, &m, rng, m.nodes.len() <= 80)?;
    if growth {
        cx.count("MatrixGraph:growth-runs");
    }
    if limit_run {
        cx.count("MatrixGraph:u8-limit-runs");
    }
    cx.count_n("MatrixGraph:reused-ids", reused);
    let mut h = kinds;
    h.add_str(cfg);
    for (&(a, b), _) in &m.edges {
        h.add((a * 256 + b) as u64);
    }
    cx.note_case(h.0, nops >= 10 && removed_nodes >= 1 && m.nodes.len() >= 3);
    Ok(())
}

pub fn case(cx: &mut Cx, rng: &mut Rng) -> R {
    macro_rules! go {
        ($Ty:ty, $tn:expr) => {
            match (rng.below(2), rng.below(4)) {
                (0, 0) => history::<$Ty, Option<i32>, u8>(cx, rng, concat!("MatrixGraph<", $tn, ",Option,u8>")),
                (0, 1) => history::<$Ty, Option<i32>, u16>(cx, rng, concat!("MatrixGraph<", $tn, ",Option,u16>")),
                (0, 2) => history::<$Ty, Option<i32>, u32>(cx, rng, concat!("MatrixGraph<", $tn, ",Option,u32>")),
                (0, _) => history::<$Ty, Option<i32>, usize>(cx, rng, concat!("MatrixGraph<", $tn, ",Option,usize>")),
                (_, 0) => history::<$Ty, NotZero<i32>, u8>(cx, rng, concat!("MatrixGraph<", $tn, ",NotZero,u8>")),
                (_, 1) => history::<$Ty, NotZero<i32>, u16>(cx, rng, concat!("MatrixGraph<", $tn, ",NotZero,u16>")),
                (_, 2) => history::<$Ty, NotZero<i32>, u32>(cx, rng, concat!("MatrixGraph<", $tn, ",NotZero,u32>")),
                (_, _) => history::<$Ty, NotZero<i32>, usize>(cx, rng, concat!("MatrixGraph<", $tn, ",NotZero,usize>")),
            }
        };
    }
    if rng.coin() {
        go!(Directed, "Directed")
    } else {
        go!(Undirected, "Undirected")
    }
}
