//! C13 - VF2 isomorphism functions against exhaustive search over injective maps.

use crate::abs::{gen, Abs, GenOpts};
use crate::cx::{Cx, R};
use crate::rng::Rng;
use petgraph::algo;
use petgraph::graph::Graph;
use petgraph::graphmap::GraphMap;
use petgraph::EdgeType;

#[derive(Clone, Debug)]
pub struct Lab {
    pub g: Abs,           // simple graph, edge weight = edge label
    pub nl: Vec<u8>,      // node labels
}

impl Lab {
    fn adj(&self) -> Vec<Vec<Option<i64>>> {
        let mut m = vec![vec![None; self.g.n]; self.g.n];
        for &(u, v, w) in &self.g.edges {
            m[u][v] = Some(w);
            if !self.g.directed {
                m[v][u] = Some(w);
            }
        }
        m
    }
    fn relabel(&self, p: &[usize]) -> Lab {
        let mut nl = vec![0; self.g.n];
        for i in 0..self.g.n {
            nl[p[i]] = self.nl[i];
        }
        let mut g = self.g.relabel(p);
        g.edges.sort();
        Lab { g, nl }
    }
}

#[derive(Clone, Copy, Debug, PartialEq)]
pub enum Sem {
    None,
    Eq,
    Le, // non-symmetric: w0 <= w1
}
impl Sem {
    fn n(self, a: u8, b: u8) -> bool {
        match self {
            Sem::None => true,
            Sem::Eq => a == b,
            Sem::Le => a <= b,
        }
    }
    fn e(self, a: i64, b: i64) -> bool {
        match self {
            Sem::None => true,
            Sem::Eq => a == b,
            Sem::Le => a <= b,
        }
    }
}

/// all injective maps V0 -> V1 that preserve adjacency and non-adjacency (node-induced) and
/// satisfy the predicates
pub fn all_maps(a: &Lab, b: &Lab, sem: Sem) -> Vec<Vec<usize>> {
    let (n0, n1) = (a.g.n, b.g.n);
    let (m0, m1) = (a.adj(), b.adj());
    let mut out = vec![];
    if n0 > n1 {
        return out;
    }
    let mut map: Vec<usize> = vec![];
    let mut used = vec![false; n1];
    fn rec(
        i: usize, n0: usize, n1: usize, m0: &[Vec<Option<i64>>], m1: &[Vec<Option<i64>>], a: &Lab, b: &Lab, sem: Sem,
        map: &mut Vec<usize>, used: &mut Vec<bool>, out: &mut Vec<Vec<usize>>,
    ) {
        if i == n0 {
            out.push(map.clone());
            return;
        }
        for c in 0..n1 {
            if used[c] || !sem.n(a.nl[i], b.nl[c]) {
                continue;
            }
            // consistency with everything mapped so far, incl. the self-loop at i
            let mut ok = true;
            map.push(c);
            for j in 0..=i {
                let cj = map[j];
                for (x, y, cx_, cy) in [(i, j, c, cj), (j, i, cj, c)] {
                    match (m0[x][y], m1[cx_][cy]) {
                        (None, None) => {}
                        (Some(w0), Some(w1)) => {
                            if !sem.e(w0, w1) {
                                ok = false;
                            }
                        }
                        _ => ok = false,
                    }
                }
                if !ok {
                    break;
                }
            }
            if ok {
                used[c] = true;
                rec(i + 1, n0, n1, m0, m1, a, b, sem, map, used, out);
                used[c] = false;
            }
            map.pop();
        }
    }
    rec(0, n0, n1, &m0, &m1, a, b, sem, &mut map, &mut used, &mut out);
    out
}

fn build<Ty: EdgeType>(l: &Lab) -> Graph<u8, i64, Ty, u32> {
    let mut g = Graph::<u8, i64, Ty, u32>::with_capacity(0, 0);
    let ids: Vec<_> = (0..l.g.n).map(|i| g.add_node(l.nl[i])).collect();
    for &(u, v, w) in &l.g.edges {
        g.add_edge(ids[u], ids[v], w);
    }
    g
}
fn build_map<Ty: EdgeType>(l: &Lab) -> GraphMap<u32, i64, Ty> {
    let mut g = GraphMap::<u32, i64, Ty>::with_capacity(0, 0);
    for i in 0..l.g.n {
        g.add_node(i as u32);
    }
    for &(u, v, w) in &l.g.edges {
        g.add_edge(u as u32, v as u32, w);
    }
    g
}

fn check_pair_ty<Ty: EdgeType>(cx: &mut Cx, rng: &mut Rng, a: &Lab, b: &Lab, tag: &str) -> R {
    let ga = build::<Ty>(a);
    let gb = build::<Ty>(b);
    // --- syntactic
    let s_none = all_maps(a, b, Sem::None);
    let iso_want = a.g.n == b.g.n && !s_none.is_empty() && a.g.m() == b.g.m();
    // with equal node counts an induced-subgraph map is a bijection preserving (non-)adjacency
    let iso_want2 = a.g.n == b.g.n && !s_none.is_empty();
    assert_eq!(iso_want, iso_want2, "oracle self-check: bijection preserving adjacency both ways implies equal edge counts");
    let got = algo::is_isomorphic(&ga, &gb);
    cx.ensure(got == iso_want, &format!("is_isomorphic{}", tag), || format!("got {}, exhaustive search says {}", got, iso_want))?;
    let got = algo::is_isomorphic_subgraph(&ga, &gb);
    cx.ensure(got == !s_none.is_empty(), &format!("is_isomorphic_subgraph{}", tag), || {
        format!("got {}, exhaustive search finds {} induced-subgraph mappings", got, s_none.len())
    })?;
    // GraphMap encodings for the non-matching variants
    let (ma, mb) = (build_map::<Ty>(a), build_map::<Ty>(b));
    let got = algo::is_isomorphic(&ma, &mb);
    cx.ensure(got == iso_want, &format!("is_isomorphic(GraphMap){}", tag), || format!("got {}, exhaustive search says {}", got, iso_want))?;
    let got = algo::is_isomorphic_subgraph(&ma, &mb);
    cx.ensure(got == !s_none.is_empty(), &format!("is_isomorphic_subgraph(GraphMap){}", tag), || format!("got {}, want {}", got, !s_none.is_empty()))?;
    // --- semantic
    for sem in [Sem::None, Sem::Eq, Sem::Le] {
        let s = if sem == Sem::None { s_none.clone() } else { all_maps(a, b, sem) };
        let want_iso = a.g.n == b.g.n && !s.is_empty();
        let got = algo::is_isomorphic_matching(&ga, &gb, |x, y| sem.n(*x, *y), |x, y| sem.e(*x, *y));
        cx.ensure(got == want_iso, &format!("is_isomorphic_matching[{:?}]{}", sem, tag), || format!("got {}, exhaustive search says {}", got, want_iso))?;
        let got = algo::is_isomorphic_subgraph_matching(&ga, &gb, |x, y| sem.n(*x, *y), |x, y| sem.e(*x, *y));
        cx.ensure(got == !s.is_empty(), &format!("is_isomorphic_subgraph_matching[{:?}]{}", sem, tag), || {
            format!("got {}, exhaustive search finds {} mappings", got, s.len())
        })?;
        // the iterator: exactly the set S, each once
        let mut nm = |x: &u8, y: &u8| sem.n(*x, *y);
        let mut em = |x: &i64, y: &i64| sem.e(*x, *y);
        let (ra, rb) = (&ga, &gb);
        let it = algo::subgraph_isomorphisms_iter(&ra, &rb, &mut nm, &mut em);
        match it {
            None => {
                cx.ensure(a.g.n > b.g.n || a.g.m() > b.g.m(), &format!("subgraph_isomorphisms_iter[{:?}]:none-without-size-reason{}", sem, tag), || {
                    "None although the size pre-check does not apply".into()
                })?;
                cx.ensure(s.is_empty(), &format!("subgraph_isomorphisms_iter[{:?}]:none-but-mappings-exist{}", sem, tag), || format!("None, but {} mappings exist", s.len()))?;
            }
            Some(it) => {
                let got: Vec<Vec<usize>> = it.take(s.len() + 1).collect();
                cx.ensure(got.len() <= s.len(), &format!("subgraph_isomorphisms_iter[{:?}]:too-many{}", sem, tag), || {
                    format!("iterator yields more than the {} existing mappings (first: {:?})", s.len(), got.first())
                })?;
                let mut g2 = got.clone();
                g2.sort();
                let before = g2.len();
                g2.dedup();
                cx.ensure(g2.len() == before, &format!("subgraph_isomorphisms_iter[{:?}]:duplicate{}", sem, tag), || format!("a mapping was yielded twice: {:?}", got))?;
                let mut want = s.clone();
                want.sort();
                cx.ensure(g2 == want, &format!("subgraph_isomorphisms_iter[{:?}]:set{}", sem, tag), || {
                    format!("yielded {:?}, exhaustive search {:?}", g2, want)
                })?;
            }
        }
        cx.count_n("mappings-checked", s.len() as u64);
    }
    // --- invariance under relabeling of either argument
    let pa = rng.perm(a.g.n);
    let pb = rng.perm(b.g.n);
    let (a2, b2) = (a.relabel(&pa), b.relabel(&pb));
    let (ga2, gb2) = (build::<Ty>(&a2), build::<Ty>(&b2));
    cx.ensure(algo::is_isomorphic(&ga2, &gb2) == iso_want, &format!("is_isomorphic:relabel-invariance{}", tag), || "answer changed after relabeling".into())?;
    cx.ensure(algo::is_isomorphic_subgraph(&ga2, &gb2) == !s_none.is_empty(), &format!("is_isomorphic_subgraph:relabel-invariance{}", tag), || "answer changed after relabeling".into())?;
    let mut nm = |_: &u8, _: &u8| true;
    let mut em = |_: &i64, _: &i64| true;
    let (ra, rb) = (&ga2, &gb2);
    if let Some(it) = algo::subgraph_isomorphisms_iter(&ra, &rb, &mut nm, &mut em) {
        let c = it.take(s_none.len() + 1).count();
        cx.ensure(c == s_none.len(), &format!("subgraph_isomorphisms_iter:relabel-invariance{}", tag), || format!("{} mappings after relabeling, {} before", c, s_none.len()))?;
    } else {
        cx.ensure(s_none.is_empty(), &format!("subgraph_isomorphisms_iter:relabel-invariance{}", tag), || "None after relabeling".into())?;
    }
    Ok(())
}

fn rand_lab(rng: &mut Rng, nmax: usize, directed: bool, loops: bool) -> Lab {
    let o = GenOpts::new(nmax).directed(directed).simple(true).loops(loops).weights(0, 1);
    let fam = *rng.pick(&["gnp", "gnp", "gnp", "tree", "cycle", "path", "star", "complete", "empty", "union", "bipartite", "dag", "tournament", "grid"]);
    let mut g = crate::abs::gen_family(rng, &o, fam);
    g.dedup_simple();
    let kinds = rng.urange(1, 3);
    let nl = (0..g.n).map(|_| rng.below(kinds) as u8).collect();
    if rng.coin() {
        for e in g.edges.iter_mut() {
            e.2 = 0;
        }
    }
    Lab { g, nl }
}

pub fn gen_pair(rng: &mut Rng, small: bool) -> (Lab, Lab, &'static str) {
    let directed = rng.coin();
    let loops = rng.coin();
    let n1max = if small { 4 } else { 7 };
    let n0max = if small { 4 } else { 6 };
    let b = rand_lab(rng, n1max, directed, loops);
    match rng.below(7) {
        0 => {
            // relabelled copy
            let p = rng.perm(b.g.n);
            (b.relabel(&p), b, "relabelled-copy")
        }
        1 => {
            // one edge edit of a relabelled copy
            let p = rng.perm(b.g.n);
            let mut a = b.relabel(&p);
            if !a.g.edges.is_empty() && rng.coin() {
                let i = rng.below(a.g.edges.len());
                a.g.edges.remove(i);
            } else if a.g.n > 0 {
                let (u, v) = (rng.below(a.g.n), rng.below(a.g.n));
                if (u != v || loops) && !a.g.has_edge(u, v) {
                    a.g.add(u, v, 0);
                }
            }
            (a, b, "one-edge-edit")
        }
        2 => {
            // degree-preserving 2-switch on a relabelled copy
            let p = rng.perm(b.g.n);
            let mut a = b.relabel(&p);
            let m = a.g.edges.len();
            if m >= 2 {
                for _ in 0..6 {
                    let (i, j) = (rng.below(m), rng.below(m));
                    let (u1, v1, w1) = a.g.edges[i];
                    let (u2, v2, w2) = a.g.edges[j];
                    if i != j && u1 != v2 && u2 != v1 && !a.g.has_edge(u1, v2) && !a.g.has_edge(u2, v1) && u1 != v1 && u2 != v2 {
                        a.g.edges[i] = (u1, v2, w1);
                        a.g.edges[j] = (u2, v1, w2);
                        break;
                    }
                }
            }
            (a, b, "two-switch")
        }
        3 => {
            // induced subgraph of b (+- one edge), relabelled
            let keep: Vec<usize> = (0..b.g.n).filter(|_| rng.chance(2, 3)).take(n0max).collect();
            let mut idx = vec![usize::MAX; b.g.n];
            for (i, &v) in keep.iter().enumerate() {
                idx[v] = i;
            }
            let mut g = Abs::new(keep.len(), directed);
            for &(u, v, w) in &b.g.edges {
                if idx[u] != usize::MAX && idx[v] != usize::MAX {
                    g.add(idx[u], idx[v], w);
                }
            }
            let nl = keep.iter().map(|&v| b.nl[v]).collect();
            let mut a = Lab { g, nl };
            if rng.chance(1, 3) && !a.g.edges.is_empty() {
                let i = rng.below(a.g.edges.len());
                a.g.edges.remove(i);
            }
            let p = rng.perm(a.g.n);
            (a.relabel(&p), b, "induced-subgraph")
        }
        4 => {
            // empty / single-node pattern
            let n = rng.below(2);
            let mut g = Abs::new(n, directed);
            if n == 1 && loops && rng.coin() {
                g.add(0, 0, 0);
            }
            (Lab { g, nl: vec![0; n] }, b, "tiny-pattern")
        }
        _ => {
            let a = rand_lab(rng, n0max, directed, loops);
            (a, b, "independent")
        }
    }
}

/// Patterns beyond the reach of the exhaustive oracle (12..=24 nodes): the pattern is an induced subgraph of the target
/// *by construction*, so the positive answers are known, and every mapping the iterator yields can be validated on its own.
fn large_by_construction<Ty: EdgeType>(cx: &mut Cx, rng: &mut Rng, directed: bool) -> R {
    let n1 = rng.urange(12, 24);
    let dens = *rng.pick(&[30u32, 45, 60]);
    let mut g = Abs::new(n1, directed);
    for u in 0..n1 {
        for v in 0..n1 {
            if (!directed && v < u) || (u == v && !rng.chance(1, 4)) {
                continue;
            }
            if rng.chance(dens, 100) {
                g.add(u, v, 0);
            }
        }
    }
    let b = Lab { g, nl: vec![0; n1] };
    let drop = rng.below(3).min(n1 - 1);
    let mut keep: Vec<usize> = (0..n1).collect();
    rng.shuffle(&mut keep);
    keep.truncate(n1 - drop);
    keep.sort_unstable();
    let mut idx = vec![usize::MAX; n1];
    for (i, &v) in keep.iter().enumerate() {
        idx[v] = i;
    }
    let mut ga = Abs::new(keep.len(), directed);
    for &(u, v, w) in &b.g.edges {
        if idx[u] != usize::MAX && idx[v] != usize::MAX {
            ga.add(idx[u], idx[v], w);
        }
    }
    let a0 = Lab { g: ga, nl: vec![0; keep.len()] };
    let p = rng.perm(a0.g.n);
    let a = a0.relabel(&p);
    cx.log(|| format!("large pair by construction: g0 = {} (induced subgraph of g1 on {} of its nodes, relabelled); g1 = {}", a.g.describe(), keep.len(), b.g.describe()));
    cx.count(&format!("large-by-construction:pattern-nodes={}", a.g.n));
    let (ga, gb) = (build::<Ty>(&a), build::<Ty>(&b));
    let tag = "/large-by-construction";
    cx.ensure(algo::is_isomorphic_subgraph(&ga, &gb), &format!("is_isomorphic_subgraph{}", tag), || "false for an induced subgraph of the target".into())?;
    let same = a.g.n == b.g.n;
    let got = algo::is_isomorphic(&ga, &gb);
    cx.ensure(got == same, &format!("is_isomorphic{}", tag), || format!("got {} for a relabelled induced subgraph on {} of {} nodes", got, a.g.n, b.g.n))?;
    let (m0, m1) = (a.adj(), b.adj());
    let mut nm = |_: &u8, _: &u8| true;
    let mut em = |_: &i64, _: &i64| true;
    let (ra, rb) = (&ga, &gb);
    match algo::subgraph_isomorphisms_iter(&ra, &rb, &mut nm, &mut em) {
        None => cx.ensure(false, &format!("subgraph_isomorphisms_iter:none{}", tag), || "None for an induced subgraph of the target".into())?,
        Some(it) => {
            // consumed the ordinary way (collect asks the iterator for its size_hint first)
            let got: Vec<Vec<usize>> = it.take(3).collect();
            cx.ensure(!got.is_empty(), &format!("subgraph_isomorphisms_iter:empty{}", tag), || "no mapping yielded for an induced subgraph of the target".into())?;
            for (k, mp) in got.iter().enumerate() {
                let mut used = vec![false; b.g.n];
                let mut ok = mp.len() == a.g.n;
                for &c in mp {
                    if c >= b.g.n || used[c] {
                        ok = false;
                        break;
                    }
                    used[c] = true;
                }
                if ok {
                    'o: for i in 0..a.g.n {
                        for j in 0..a.g.n {
                            if m0[i][j].is_some() != m1[mp[i]][mp[j]].is_some() {
                                ok = false;
                                break 'o;
                            }
                        }
                    }
                }
                cx.ensure(ok, &format!("subgraph_isomorphisms_iter:invalid-mapping{}", tag), || format!("mapping #{} {:?} is not an injective map preserving adjacency and non-adjacency", k, mp))?;
                cx.ensure(!got[..k].contains(mp), &format!("subgraph_isomorphisms_iter:duplicate{}", tag), || format!("mapping {:?} yielded twice", mp))?;
            }
        }
    }
    Ok(())
}

pub fn case(cx: &mut Cx, rng: &mut Rng) -> R {
    if !cx.small && rng.chance(1, if cx.thorough { 10 } else { 25 }) {
        let directed = rng.coin();
        cx.note_case(rng.next_u64(), true);
        return if directed {
            cx.config = "Graph<Directed>".into();
            large_by_construction::<petgraph::Directed>(cx, rng, true)
        } else {
            cx.config = "Graph<Undirected>".into();
            large_by_construction::<petgraph::Undirected>(cx, rng, false)
        };
    }
    let (a, b, kind) = gen_pair(rng, cx.small);
    cx.log(|| format!("pair kind {}: g0 = {} labels {:?}; g1 = {} labels {:?}", kind, a.g.describe(), a.nl, b.g.describe(), b.nl));
    cx.count(&format!("pair:{}", kind));
    cx.note_case(a.g.hash() ^ b.g.hash().rotate_left(13), a.g.n >= 2 && b.g.n >= 3 && b.g.m() >= 2);
    if a.g.has_loops() || b.g.has_loops() {
        cx.count("feature:self-loops");
    }
    if a.g.directed {
        cx.config = "Graph<Directed>".into();
        check_pair_ty::<petgraph::Directed>(cx, rng, &a, &b, "")
    } else {
        cx.config = "Graph<Undirected>".into();
        check_pair_ty::<petgraph::Undirected>(cx, rng, &a, &b, "")
    }
}
