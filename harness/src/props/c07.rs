//! C07 - representation independence: one abstract graph, every feasible encoding, every
//! algorithm that type-checks on it.  Unique answers are compared with one oracle (hence with
//! each other), non-unique answers must pass the same validity/optimality checker, and a panic
//! or overrun on one encoding is a violation.

use crate::abs::{gen, Abs, GenOpts};
use crate::cx::{catch, Cx, R};
use crate::oracle::*;
use crate::props::{c08, c09, c10, c11, c12, c15, c16, c20};
use crate::rng::Rng;
use petgraph::algo;
use petgraph::visit::*;

/// run one checker; a library panic on this encoding is recorded and the sweep goes on
macro_rules! guarded {
    ($cx:expr, $what:expr, $call:expr) => {{
        let r = catch(|| $call);
        if let Err(p) = r {
            if p.in_library() || true {
                $cx.violation(&format!("{}:panics-on-this-encoding", $what), format!("{} panicked on this encoding: {}", $what, p.short()));
            }
        }
    }};
}

/// page_rank: one rank per node, carried by the node correspondence; equal across encodings
fn page_rank_norm<G>(cx: &mut Cx, abs: &Abs, g: G, ids: &[G::NodeId]) -> R<Vec<f64>>
where
    G: NodeCount + IntoEdges + NodeIndexable + Copy,
{
    let r: Vec<f64> = algo::page_rank(g, 0.85f64, 25);
    let mut out = vec![];
    for v in 0..abs.n {
        let i = g.to_index(ids[v]);
        cx.ensure(i < r.len(), "page_rank:no-rank-for-a-live-node", || {
            format!("node {} has index {} but page_rank returned {} ranks (node_count {}, node_bound {})", v, i, r.len(), g.node_count(), g.node_bound())
        })?;
        out.push(r[i]);
    }
    let s: f64 = out.iter().sum();
    cx.ensure(abs.n == 0 || (s - 1.0).abs() <= 1e-9 * abs.n as f64, "page_rank:ranks-of-the-live-nodes-do-not-sum-to-1", || format!("ranks of the live nodes sum to {}", s))?;
    Ok(out)
}

pub fn case(cx: &mut Cx, rng: &mut Rng) -> R {
    let nmax = if cx.small { 5 } else if rng.chance(1, 8) { 10 } else { 7 };
    let abs = gen(rng, &GenOpts::new(nmax).weights(0, 9));
    cx.log(|| abs.describe());
    cx.note_case(abs.hash(), abs.n >= 3 && abs.m() >= 2);
    cx.count(&format!("family:{}", abs.family));
    let cl = closure(&abs);
    let simple_loopfree = abs.is_simple() && !abs.has_loops();

    // ---- every encoding: traversal, connectivity, shortest paths, spanning forest, matching, dominators
    let mut ranks: Vec<(String, Vec<f64>)> = vec![];
    with_enc!(all, &abs, rng, i64, |w| w,
        directed: [GraphU8, GraphShuf, GraphUsize, StableHoles, StableU8, GMap, Matrix, CsrT, ListT],
        undirected: [GraphU8, GraphShuf, GraphUsize, StableHoles, StableU8, GMap, Matrix, CsrT],
        |g, ids, tag| {
            cx.config = tag.name().to_string();
            cx.count(&format!("cell:all-types/{}", tag.name()));
            guarded!(cx, "tarjan_scc", c09::check_tarjan(cx, &abs, &cl, g, ids));
            guarded!(cx, "has_path_connecting", c09::check_has_path(cx, &abs, &cl, g, ids, 0));
            guarded!(cx, "is_cyclic_undirected", c09::check_cyclic_undirected(cx, &abs, g));
            if abs.directed {
                guarded!(cx, "is_cyclic_directed", c09::check_cyclic_directed(cx, &abs, &cl, g));
            } else {
                guarded!(cx, "is_bipartite_undirected", c09::check_bipartite(cx, &abs, g, ids));
                guarded!(cx, "articulation_points", c16::check_articulation(cx, &abs, g, ids));
                guarded!(cx, "min_spanning_tree_prim", c12::check_prim(cx, &abs, g, ids));
                if simple_loopfree {
                    guarded!(cx, "maximal_cliques", c20::check_cliques(cx, &abs, g, ids));
                    guarded!(cx, "dsatur_coloring", c20::check_dsatur(cx, &abs, g, ids));
                }
            }
            guarded!(cx, "walkers", c08::check_walkers(cx, rng, &abs, &cl, g, ids));
            guarded!(cx, "depth_first_search", c08::check_dfs_events(cx, rng, &abs, g, ids));
            guarded!(cx, "dijkstra", c10::check_dijkstra::<_, i64>(cx, rng, &abs, g, ids));
            guarded!(cx, "astar", c10::check_astar(cx, rng, &abs, g, ids));
            guarded!(cx, "k_shortest_path", c10::check_k_shortest(cx, rng, &abs, g, ids));
            guarded!(cx, "spfa", c11::check_spfa::<_, i64>(cx, rng, &abs, g, ids));
            guarded!(cx, "min_spanning_tree", c12::check_kruskal(cx, &abs, g, ids));
            guarded!(cx, "matching", c15::check_matchings(cx, &abs, g, ids, tag.name()));
            guarded!(cx, "dominators", c16::check_dominators(cx, rng, &abs, g, ids));
            // page_rank: sparse index types are judged under their own signature
            let saved = cx.config.clone();
            if tag.sparse_indices() {
                cx.config = "sparse-index-type".into();
            }
            let pr = catch(|| page_rank_norm(cx, &abs, g, ids));
            cx.config = saved;
            match pr {
                Ok(Ok(v)) => ranks.push((tag.name().to_string(), v)),
                Ok(Err(_)) => {}
                Err(p) => cx.violation("page_rank:panics-on-this-encoding", format!("page_rank panicked: {}", p.short())),
            }
        });
    // page_rank must give corresponding answers on all encodings that produced one
    if let Some((n0, r0)) = ranks.first().cloned() {
        for (n1, r1) in &ranks[1..] {
            for v in 0..abs.n {
                let (a, b) = (r0[v], r1[v]);
                let ok = (a - b).abs() <= 1e-9 * a.abs().max(b.abs()).max(1e-3);
                cx.config = format!("{} vs {}", n0, n1);
                let _ = cx.ensure(ok, "page_rank:differs-between-encodings", || format!("node {}: {} on {}, {} on {}", v, a, n0, b, n1));
            }
        }
    }
    // ---- types with IntoNeighborsDirected
    with_enc!(all, &abs, rng, i64, |w| w,
        directed: [GraphU8, GraphShuf, GraphUsize, StableHoles, StableU8, GMap, Matrix],
        undirected: [GraphU8, GraphShuf, GraphUsize, StableHoles, StableU8, GMap],
        |g, ids, tag| {
            cx.config = tag.name().to_string();
            cx.count(&format!("cell:neighbors-directed-types/{}", tag.name()));
            guarded!(cx, "kosaraju_scc", c09::check_kosaraju(cx, &abs, &cl, g, ids));
            if abs.directed {
                guarded!(cx, "toposort", c09::check_toposort(cx, &abs, &cl, g, ids));
                guarded!(cx, "Topo", c08::check_topo(cx, &abs, &cl, g, ids));
            }
            if abs.is_simple() {
                guarded!(cx, "all_simple_paths", c20::check_simple_paths(cx, rng, &abs, g, ids));
            }
        });
    // ---- compact types only (the static guard)
    with_enc!(all, &abs, rng, i64, |w| w,
        directed: [GraphU8, GraphShuf, GraphUsize, GMap, CsrT, ListT],
        undirected: [GraphU8, GraphShuf, GraphUsize, GMap, CsrT],
        |g, ids, tag| {
            cx.config = tag.name().to_string();
            cx.count(&format!("cell:compact-types/{}", tag.name()));
            guarded!(cx, "connected_components", c09::check_connected_components(cx, &abs, g));
            guarded!(cx, "floyd_warshall", c11::check_fw(cx, &abs, g, ids));
        });
    // ---- bellman_ford / find_negative_cycle need float weights
    with_enc!(all, &abs, rng, f64, |w| w as f64,
        directed: [GraphU8, GraphShuf, GraphUsize, StableHoles, StableU8, GMap, Matrix, CsrT, ListT],
        undirected: [GraphU8, GraphShuf, GraphUsize, StableHoles, StableU8, GMap, Matrix, CsrT],
        |g, ids, tag| {
            cx.config = format!("{}/f64", tag.name());
            cx.count(&format!("cell:float-weights/{}", tag.name()));
            guarded!(cx, "bellman_ford", c11::check_bf(cx, rng, &abs, g, ids));
        });
    // ---- flow: Graph and StableGraph
    if abs.directed && abs.n >= 2 {
        with_enc!(all, &abs, rng, u32, |w| w as u32,
            directed: [GraphU8, GraphShuf, GraphUsize, StableHoles, StableU8],
            undirected: [],
            |g, ids, tag| {
                cx.config = format!("{}/u32", tag.name());
                cx.count(&format!("cell:ford_fulkerson/{}", tag.name()));
                guarded!(cx, "ford_fulkerson", c15::check_flow(cx, rng, &abs, g, ids));
            });
        with_enc!(all, &abs, rng, i64, |w| w,
            directed: [GraphU8, GraphShuf, GraphUsize, StableHoles, StableU8, Matrix],
            undirected: [],
            |g, ids, tag| {
                cx.config = tag.name().to_string();
                cx.count(&format!("cell:greedy_feedback_arc_set/{}", tag.name()));
                guarded!(cx, "greedy_feedback_arc_set", c20::check_fas(cx, &abs, g, ids));
            });
    }
    Ok(())
}
