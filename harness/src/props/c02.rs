//! C02 - `StableGraph` under operation histories: index stability, exact bookkeeping, failing
//! calls leave everything unchanged, free-list invariants (raw exporter + boundary probes).

use crate::cx::{catch, Cx, R};
use crate::dsmodel::{Model, ME};
use crate::rng::Rng;
use petgraph::graph::{EdgeIndex, Graph, GraphError, IndexType, NodeIndex};
use petgraph::stable_graph::StableGraph;
use petgraph::visit::{EdgeIndexable, EdgeRef, IntoEdgeReferences, NodeIndexable};
use petgraph::{Directed, EdgeType, Undirected};

gen_sweep!(sweep_stable, StableGraph, "StableGraph", graph_only: no);

fn imax<Ix: IndexType>() -> usize {
    <Ix as IndexType>::max().index()
}

pub type SG<Ty, Ix> = StableGraph<u32, u32, Ty, Ix>;

/// free lists: in range, vacant, acyclic, cover every vacancy; counters exact
pub fn raw_invariants<Ty: EdgeType, Ix: IndexType>(cx: &mut Cx, g: &SG<Ty, Ix>, m: &Model) -> R {
    let (free_node, free_edge, nc, ec, nodes, edges) = g.verif_raw();
    let end = imax::<Ix>();
    cx.ensure(nc == m.node_count() && ec == m.edge_count(), "StableGraph:raw-counters", || {
        format!("cached node_count {} / edge_count {}, model {} / {}", nc, ec, m.node_count(), m.edge_count())
    })?;
    cx.ensure(nodes.len() == m.nodes.len() && edges.len() == m.edges.len(), "StableGraph:raw-lengths", || {
        format!("raw slots {} / {}, model {} / {}", nodes.len(), edges.len(), m.nodes.len(), m.edges.len())
    })?;
    for (i, n) in nodes.iter().enumerate() {
        cx.ensure(n.0 == !m.node_live(i), "StableGraph:raw-node-vacancy", || format!("slot {} vacant={} but model live={}", i, n.0, m.node_live(i)))?;
    }
    for (i, e) in edges.iter().enumerate() {
        cx.ensure(e.0 == !m.edge_live(i), "StableGraph:raw-edge-vacancy", || format!("edge slot {} vacant={} but model live={}", i, e.0, m.edge_live(i)))?;
    }
    // node free list: doubly linked through next[0] (forward) / next[1] (back)
    let mut seen = vec![false; nodes.len()];
    let mut cur = free_node;
    let mut prev = end;
    let mut cnt = 0;
    while cur != end {
        cx.ensure(cur < nodes.len(), "StableGraph:free-node-out-of-range", || format!("free node list reaches index {} of {}", cur, nodes.len()))?;
        cx.ensure(nodes[cur].0, "StableGraph:free-node-list-has-live-node", || format!("live node {} is on the free list", cur))?;
        cx.ensure(!seen[cur], "StableGraph:free-node-list-cycle", || format!("free node list revisits {}", cur))?;
        cx.ensure(nodes[cur].2 == prev, "StableGraph:free-node-back-link", || format!("vacant node {}: back link {} but predecessor on the list is {}", cur, nodes[cur].2, prev))?;
        seen[cur] = true;
        cnt += 1;
        prev = cur;
        cur = nodes[cur].1;
    }
    let vac = nodes.iter().filter(|n| n.0).count();
    cx.ensure(cnt == vac, "StableGraph:free-node-list-incomplete", || format!("{} vacant node slots but {} on the free list (leaked vacancies)", vac, cnt))?;
    let mut seen = vec![false; edges.len()];
    let mut cur = free_edge;
    let mut cnt = 0;
    while cur != end {
        cx.ensure(cur < edges.len(), "StableGraph:free-edge-out-of-range", || format!("free edge list reaches index {} of {}", cur, edges.len()))?;
        cx.ensure(edges[cur].0, "StableGraph:free-edge-list-has-live-edge", || format!("live edge {} is on the free list", cur))?;
        cx.ensure(!seen[cur], "StableGraph:free-edge-list-cycle", || format!("free edge list revisits {}", cur))?;
        seen[cur] = true;
        cnt += 1;
        cur = edges[cur].1;
    }
    let vac = edges.iter().filter(|e| e.0).count();
    cx.ensure(cnt == vac, "StableGraph:free-edge-list-incomplete", || format!("{} vacant edge slots but {} on the free list (leaked vacancies)", vac, cnt))?;
    Ok(())
}

fn bounds_and_extras<Ty: EdgeType, Ix: IndexType>(cx: &mut Cx, g: &SG<Ty, Ix>, m: &Model) -> R {
    let nb = g.node_bound();
    let eb = g.edge_bound();
    let max_n = m.live_nodes().last().map_or(0, |x| x + 1);
    let max_e = m.live_edges().last().map_or(0, |x| x + 1);
    cx.ensure(nb >= max_n && nb <= m.nodes.len(), "StableGraph:node_bound", || format!("node_bound() = {}, last live node + 1 = {}, slots {}", nb, max_n, m.nodes.len()))?;
    cx.ensure(eb >= max_e && eb <= m.edges.len(), "StableGraph:edge_bound", || format!("edge_bound() = {}, last live edge + 1 = {}, slots {}", eb, max_e, m.edges.len()))?;
    for i in 0..m.nodes.len() + 2 {
        if i > imax::<Ix>() {
            break;
        }
        let got = g.contains_node(NodeIndex::new(i));
        cx.ensure(got == m.node_live(i), "StableGraph:contains_node", || format!("contains_node({}) = {}, model {}", i, got, m.node_live(i)))?;
    }
    for a in m.live_nodes() {
        let i = NodeIndexable::to_index(g, NodeIndex::new(a));
        cx.ensure(i < nb && NodeIndexable::from_index(g, i).index() == a, "StableGraph:NodeIndexable-roundtrip", || format!("node {}: to_index {} bound {}", a, i, nb))?;
    }
    for e in m.live_edges() {
        let i = EdgeIndexable::to_index(g, EdgeIndex::new(e));
        cx.ensure(i < eb && EdgeIndexable::from_index(g, i).index() == e, "StableGraph:EdgeIndexable-roundtrip", || format!("edge {}: to_index {} bound {}", e, i, eb))?;
    }
    Ok(())
}

pub fn full_sweep<Ty: EdgeType, Ix: IndexType>(cx: &mut Cx, g: &SG<Ty, Ix>, m: &Model, salt: usize) -> R {
    sweep_stable(cx, g, m, false, salt)?;
    bounds_and_extras(cx, g, m)?;
    raw_invariants(cx, g, m)
}

/// valid no-op calls that make the library run its own debug self-checks
pub fn boundary_probes<Ty: EdgeType, Ix: IndexType>(cx: &mut Cx, g: &mut SG<Ty, Ix>, m: &Model) -> R {
    let r = catch(|| {
        g.retain_nodes(|_, _| true);
        g.retain_edges(|_, _| true);
        let c = g.filter_map(|_, w| Some(*w), |_, w| Some(*w));
        (c.node_count(), c.edge_count())
    });
    match r {
        Ok((n, e)) => cx.ensure(n == m.node_count() && e == m.edge_count(), "StableGraph:identity-filter_map-counts", || format!("identity filter_map has {} nodes {} edges", n, e)),
        Err(p) => cx.ensure(false, "StableGraph:valid-no-op-call-panicked", || format!("retain_*(|_| true) / identity filter_map panicked: {}", p.short())),
    }
}

/// a new index handed out by the library must not be live (then it is adopted)
pub fn adopt_new_node(cx: &mut Cx, m: &mut Model, idx: usize, w: u32, what: &str) -> R {
    cx.ensure(!m.node_live(idx), &format!("{}:new-node-index-is-live", what), || format!("{} returned index {} which is a live node", what, idx))?;
    cx.ensure(idx <= m.nodes.len(), &format!("{}:new-node-index-skips", what), || format!("{} returned index {} with {} slots", what, idx, m.nodes.len()))?;
    if idx == m.nodes.len() {
        m.nodes.push(Some(w));
    } else {
        m.nodes[idx] = Some(w);
    }
    Ok(())
}
pub fn adopt_new_edge(cx: &mut Cx, m: &mut Model, idx: usize, a: usize, b: usize, w: u32, what: &str) -> R {
    cx.ensure(!m.edge_live(idx), &format!("{}:new-edge-index-is-live", what), || format!("{} returned index {} which is a live edge", what, idx))?;
    cx.ensure(idx <= m.edges.len(), &format!("{}:new-edge-index-skips", what), || format!("{} returned index {} with {} slots", what, idx, m.edges.len()))?;
    m.set_edge(idx, a, b, w);
    Ok(())
}

fn pick_node<Ix: IndexType>(rng: &mut Rng, m: &Model, absent_pct: u32) -> usize {
    let live = m.live_nodes();
    if live.is_empty() || rng.chance(absent_pct, 100) {
        let vac: Vec<usize> = (0..m.nodes.len()).filter(|&i| !m.node_live(i)).collect();
        if !vac.is_empty() && rng.chance(2, 3) {
            vac[rng.below(vac.len())]
        } else {
            [m.nodes.len(), m.nodes.len() + 1, imax::<Ix>()][rng.below(3)].min(imax::<Ix>())
        }
    } else {
        live[rng.below(live.len())]
    }
}

fn history<Ty: EdgeType, Ix: IndexType>(cx: &mut Cx, rng: &mut Rng, ixname: &str) -> R {
    let directed = Ty::is_directed();
    cx.config = format!("StableGraph<{},{}>", if directed { "Directed" } else { "Undirected" }, ixname);
    let small = cx.small;
    let cap_mode = imax::<Ix>() == 255 && !small && rng.chance(1, 6);
    let mut g: SG<Ty, Ix> = StableGraph::with_capacity(rng.below(3), rng.below(3));
    let mut m = Model::new(directed);
    if rng.chance(1, 4) {
        // start from a Graph
        let mut gg = Graph::<u32, u32, Ty, Ix>::with_capacity(0, 0);
        let n0 = rng.urange(1, 6);
        for _ in 0..n0 {
            let w = m.fresh_w();
            gg.add_node(w);
            m.nodes.push(Some(w));
        }
        for _ in 0..rng.below(8) {
            let (a, b) = (rng.below(n0), rng.below(n0));
            let w = m.fresh_w();
            gg.add_edge(NodeIndex::new(a), NodeIndex::new(b), w);
            m.push_edge(a, b, w);
        }
        cx.log(|| format!("From<Graph>: {}", m.describe()));
        g = StableGraph::from(gg);
    }
    if cap_mode {
        cx.log(|| "capacity mode: filling the u8 index space".to_string());
        while m.nodes.len() < 255 {
            let w = m.fresh_w();
            let i = g.add_node(w).index();
            adopt_new_node(cx, &mut m, i, w, "add_node")?;
        }
        let target = if rng.coin() { 255 } else { 250 + rng.below(5) };
        while m.edge_count() < target {
            let (a, b) = (rng.below(255), rng.below(255));
            let w = m.fresh_w();
            let e = g.add_edge(NodeIndex::new(a), NodeIndex::new(b), w).index();
            adopt_new_edge(cx, &mut m, e, a, b, w, "add_edge")?;
        }
        cx.count("StableGraph:u8-capacity-histories");
    }
    full_sweep(cx, &g, &m, 0)?;
    let nops = if small { rng.urange(8, 40) } else if cap_mode { rng.urange(20, 80) } else { rng.urange(30, 400) };
    let maxn = if cap_mode { 255 } else if rng.chance(1, 8) { 30 } else { 12 };
    let absent_pct = [8u32, 20, 35][rng.below(3)];
    let mut kinds = crate::cx::H::new();
    let mut max_vac = (0usize, 0usize);
    let mut failed_calls = 0;
    let mut snap: Option<SG<Ty, Ix>> = None;
    for step in 0..nops {
        cx.ops += 1;
        let live_n = m.node_count();
        let op = rng.weighted(&[
            12, // 0 add_node
            28, // 1 add_edge
            7,  // 2 update_edge
            10, // 3 remove_edge
            8,  // 4 remove_node
            3,  // 5 weight mutation
            3,  // 6 reverse
            1,  // 7 clear / clear_edges
            3,  // 8 retain_*
            3,  // 9 map / filter_map
            4,  // 10 extend_with_edges
            2,  // 11 clone
            2,  // 12 conversion to Graph and back / From<Graph>
            2,  // 13 index_twice_mut
            3,  // 14 boundary probes
        ]);
        kinds.add(op as u64);
        let mut check = true;
        match op {
            0 => {
                if live_n >= maxn && !cap_mode {
                    continue;
                }
                let w = m.fresh_w();
                let has_vacancy = m.nodes.iter().any(|x| x.is_none());
                let at_limit = !has_vacancy && m.nodes.len() >= imax::<Ix>() && imax::<Ix>() != usize::MAX;
                if rng.coin() {
                    cx.log(|| format!("#{} try_add_node(w{})", step, w));
                    match g.try_add_node(w) {
                        Ok(i) => {
                            cx.ensure(!at_limit, "StableGraph:try_add_node-beyond-limit", || format!("Ok({}) with {} slots and no vacancy", i.index(), m.nodes.len()))?;
                            adopt_new_node(cx, &mut m, i.index(), w, "try_add_node")?;
                        }
                        Err(e) => {
                            cx.ensure(at_limit && e == GraphError::NodeIxLimit, "StableGraph:try_add_node-unexpected-error", || format!("{:?} with {} slots, vacancy {}", e, m.nodes.len(), has_vacancy))?;
                            failed_calls += 1;
                        }
                    }
                } else {
                    cx.log(|| format!("#{} add_node(w{})", step, w));
                    match catch(|| g.add_node(w)) {
                        Ok(i) => {
                            cx.ensure(!at_limit, "StableGraph:add_node-beyond-limit", || format!("index {} at the limit", i.index()))?;
                            adopt_new_node(cx, &mut m, i.index(), w, "add_node")?;
                        }
                        Err(p) => {
                            cx.ensure(at_limit, "StableGraph:add_node-unexpected-panic", || format!("add_node panicked: {}", p.short()))?;
                            failed_calls += 1;
                        }
                    }
                }
            }
            1 | 2 => {
                let a = pick_node::<Ix>(rng, &m, absent_pct);
                let b = if rng.chance(1, 8) {
                    a
                } else if op == 2 && m.node_live(a) && rng.chance(2, 3) && !m.incident(a).is_empty() {
                    let inc = m.incident(a);
                    m.other(inc[rng.below(inc.len())], a)
                } else {
                    pick_node::<Ix>(rng, &m, absent_pct / 2)
                };
                let w = m.fresh_w();
                let (ai, bi) = (NodeIndex::<Ix>::new(a), NodeIndex::<Ix>::new(b));
                let nodes_ok = m.node_live(a) && m.node_live(b);
                let has_vac = m.edges.iter().any(|x| x.is_none());
                let at_limit = !has_vac && m.edges.len() >= imax::<Ix>() && imax::<Ix>() != usize::MAX;
                let conn: Vec<usize> = if op == 2 && nodes_ok { m.live_edges().into_iter().filter(|&e| m.connects(e, a, b)).collect() } else { vec![] };
                // expected error for a fresh insertion
                let raw = m.nodes.len();
                let missed = if a.max(b) >= raw { Some(a.max(b)) } else if !m.node_live(a) { Some(a) } else if !m.node_live(b) { Some(b) } else { None };
                let want_err: Option<GraphError> = if !conn.is_empty() {
                    None
                } else if at_limit {
                    Some(GraphError::EdgeIxLimit)
                } else {
                    missed.map(GraphError::NodeMissed)
                };
                let use_try = rng.coin();
                let name = match (op, use_try) {
                    (1, true) => "try_add_edge",
                    (1, false) => "add_edge",
                    (_, true) => "try_update_edge",
                    _ => "update_edge",
                };
                cx.log(|| format!("#{} {}({}, {}, w{})", step, name, a, b, w));
                let r: Result<Result<EdgeIndex<Ix>, GraphError>, crate::cx::PanicInfo> = match (op, use_try) {
                    (1, true) => Ok(g.try_add_edge(ai, bi, w)),
                    (1, false) => catch(|| Ok(g.add_edge(ai, bi, w))),
                    (_, true) => Ok(g.try_update_edge(ai, bi, w)),
                    _ => catch(|| Ok(g.update_edge(ai, bi, w))),
                };
                match r {
                    Ok(Ok(e)) => {
                        cx.ensure(want_err.is_none(), &format!("StableGraph:{}-should-fail", name), || format!("{}({},{}) = Ok({}), expected {:?}", name, a, b, e.index(), want_err))?;
                        if conn.is_empty() {
                            adopt_new_edge(cx, &mut m, e.index(), a, b, w, name)?;
                        } else {
                            cx.ensure(conn.contains(&e.index()), "StableGraph:update_edge-wrong-edge", || format!("updated edge {}, connecting edges {:?}", e.index(), conn))?;
                            m.edges[e.index()].as_mut().unwrap().w = w;
                        }
                    }
                    Ok(Err(err)) => {
                        cx.ensure(want_err.as_ref() == Some(&err), &format!("StableGraph:{}-error", name), || format!("{}({},{}) = Err({:?}), model expects {:?}", name, a, b, err, want_err))?;
                        failed_calls += 1;
                    }
                    Err(p) => {
                        cx.ensure(want_err.is_some(), &format!("StableGraph:{}-unexpected-panic", name), || format!("{}({},{}) panicked: {}", name, a, b, p.short()))?;
                        failed_calls += 1;
                    }
                }
            }
            3 => {
                let le = m.live_edges();
                let e = if le.is_empty() || rng.chance(absent_pct, 100) {
                    let vac: Vec<usize> = (0..m.edges.len()).filter(|&i| !m.edge_live(i)).collect();
                    if !vac.is_empty() && rng.coin() { vac[rng.below(vac.len())] } else { [m.edges.len(), m.edges.len() + 1, imax::<Ix>()][rng.below(3)].min(imax::<Ix>()) }
                } else {
                    le[rng.below(le.len())]
                };
                cx.log(|| format!("#{} remove_edge({})", step, e));
                let r = g.remove_edge(EdgeIndex::new(e));
                if m.edge_live(e) {
                    cx.ensure(r == Some(m.e(e).w), "StableGraph:remove_edge-result", || format!("remove_edge({}) = {:?}, model {}", e, r, m.e(e).w))?;
                    m.edges[e] = None;
                } else {
                    cx.ensure(r.is_none(), "StableGraph:remove_edge-absent", || format!("remove_edge({}) = {:?} for an absent edge", e, r))?;
                }
            }
            4 => {
                let a = pick_node::<Ix>(rng, &m, absent_pct);
                cx.log(|| format!("#{} remove_node({})", step, a));
                let r = g.remove_node(NodeIndex::new(a));
                if m.node_live(a) {
                    cx.ensure(r == m.nodes[a], "StableGraph:remove_node-result", || format!("remove_node({}) = {:?}, model {:?}", a, r, m.nodes[a]))?;
                    for e in m.incident(a) {
                        m.edges[e] = None;
                    }
                    m.nodes[a] = None;
                } else {
                    cx.ensure(r.is_none(), "StableGraph:remove_node-absent", || format!("remove_node({}) = {:?} for an absent node", a, r))?;
                }
            }
            5 => {
                let w = m.fresh_w();
                if rng.coin() {
                    let a = pick_node::<Ix>(rng, &m, absent_pct);
                    cx.log(|| format!("#{} node weight of {} := w{}", step, a, w));
                    match g.node_weight_mut(NodeIndex::new(a)) {
                        Some(x) => {
                            cx.ensure(m.node_live(a), "StableGraph:node_weight_mut-absent-some", || format!("node_weight_mut({}) is Some for an absent node", a))?;
                            *x = w;
                            m.nodes[a] = Some(w);
                        }
                        None => cx.ensure(!m.node_live(a), "StableGraph:node_weight_mut-live-none", || format!("node_weight_mut({}) = None", a))?,
                    }
                } else {
                    let le = m.live_edges();
                    if !le.is_empty() {
                        let e = le[rng.below(le.len())];
                        cx.log(|| format!("#{} edge weight of {} := w{}", step, e, w));
                        if rng.coin() {
                            *g.edge_weight_mut(EdgeIndex::new(e)).unwrap() = w;
                        } else {
                            g[EdgeIndex::<Ix>::new(e)] = w;
                        }
                        m.edges[e].as_mut().unwrap().w = w;
                    }
                    if let Some(v) = (0..m.edges.len()).find(|&i| !m.edge_live(i)) {
                        cx.ensure(g.edge_weight_mut(EdgeIndex::new(v)).is_none(), "StableGraph:edge_weight_mut-vacant-some", || format!("edge_weight_mut({}) is Some for a vacant edge", v))?;
                    }
                }
            }
            6 => {
                cx.log(|| format!("#{} reverse()", step));
                g.reverse();
                m.reverse();
            }
            7 => {
                if rng.chance(1, 4) {
                    cx.log(|| format!("#{} clear()", step));
                    g.clear();
                    m.nodes.clear();
                    m.edges.clear();
                } else {
                    cx.log(|| format!("#{} clear_edges()", step));
                    g.clear_edges();
                    m.edges.clear();
                }
            }
            8 => {
                let modulus = rng.urange(2, 4) as u32;
                let rem = rng.below(modulus as usize) as u32;
                let keep = move |w: u32| w % modulus != rem;
                let mut seen: Vec<u32> = vec![];
                if rng.coin() {
                    cx.log(|| format!("#{} retain_nodes(w % {} != {})", step, modulus, rem));
                    g.retain_nodes(|fr, i| {
                        let w = fr[i];
                        seen.push(w);
                        keep(w)
                    });
                    seen.sort_unstable();
                    let mut want: Vec<u32> = m.nodes.iter().flatten().copied().collect();
                    want.sort_unstable();
                    cx.ensure(seen == want, "StableGraph:retain_nodes-closure-arguments", || format!("closure saw {:?}, live node weights {:?}", seen, want))?;
                    for a in m.live_nodes() {
                        if !keep(m.nodes[a].unwrap()) {
                            for e in m.incident(a) {
                                m.edges[e] = None;
                            }
                            m.nodes[a] = None;
                        }
                    }
                } else {
                    cx.log(|| format!("#{} retain_edges(w % {} != {})", step, modulus, rem));
                    g.retain_edges(|fr, e| {
                        let w = fr[e];
                        seen.push(w);
                        keep(w)
                    });
                    seen.sort_unstable();
                    let mut want: Vec<u32> = m.live_edges().iter().map(|&e| m.e(e).w).collect();
                    want.sort_unstable();
                    cx.ensure(seen == want, "StableGraph:retain_edges-closure-arguments", || format!("closure saw {:?}, live edge weights {:?}", seen, want))?;
                    for e in m.live_edges() {
                        if !keep(m.e(e).w) {
                            m.edges[e] = None;
                        }
                    }
                }
            }
            9 => {
                let mut nseen = vec![];
                let mut eseen = vec![];
                if rng.coin() {
                    cx.log(|| format!("#{} map(identity)", step));
                    let g2 = g.map(|i, w| { nseen.push((i.index(), *w)); *w }, |e, w| { eseen.push((e.index(), *w)); *w });
                    g = g2;
                } else {
                    let modulus = rng.urange(2, 5) as u32;
                    cx.log(|| format!("#{} filter_map(drop nodes w % {} == 0, edges w % {} == 1)", step, modulus, modulus));
                    let g2 = g.filter_map(
                        |i, w| { nseen.push((i.index(), *w)); if *w % modulus == 0 { None } else { Some(*w) } },
                        |e, w| { eseen.push((e.index(), *w)); if *w % modulus == 1 { None } else { Some(*w) } },
                    );
                    g = g2;
                    // indices are preserved
                    let before = m.clone();
                    for a in before.live_nodes() {
                        if before.nodes[a].unwrap() % modulus == 0 {
                            for e in m.incident(a) {
                                m.edges[e] = None;
                            }
                            m.nodes[a] = None;
                        }
                    }
                    // edges whose endpoints survived were offered to the closure
                    let want_e: Vec<(usize, u32)> = before.live_edges().into_iter().filter(|&e| m.node_live(before.e(e).src) && m.node_live(before.e(e).dst)).map(|e| (e, before.e(e).w)).collect();
                    eseen.sort();
                    cx.ensure(eseen == want_e, "StableGraph:filter_map-edge-closure-arguments", || format!("saw {:?}, expected {:?}", eseen, want_e))?;
                    eseen.clear();
                    for e in m.live_edges() {
                        if m.e(e).w % modulus == 1 {
                            m.edges[e] = None;
                        }
                    }
                    // the result is trimmed to the bounds of the source
                    let nb = before.live_nodes().last().map_or(0, |x| x + 1);
                    let ebd = before.live_edges().last().map_or(0, |x| x + 1);
                    m.nodes.truncate(nb);
                    m.edges.truncate(ebd);
                    let want_n: Vec<(usize, u32)> = before.live_nodes().into_iter().map(|a| (a, before.nodes[a].unwrap())).collect();
                    nseen.sort();
                    cx.ensure(nseen == want_n, "StableGraph:filter_map-node-closure-arguments", || format!("saw {:?}, expected {:?}", nseen, want_n))?;
                    nseen.clear();
                }
                if !nseen.is_empty() || !eseen.is_empty() {
                    nseen.sort();
                    eseen.sort();
                    let want_n: Vec<(usize, u32)> = m.live_nodes().into_iter().map(|a| (a, m.nodes[a].unwrap())).collect();
                    let want_e: Vec<(usize, u32)> = m.live_edges().into_iter().map(|e| (e, m.e(e).w)).collect();
                    cx.ensure(nseen == want_n && eseen == want_e, "StableGraph:map-closure-arguments", || format!("saw {:?} / {:?}", nseen, eseen))?;
                }
            }
            10 => {
                let k = rng.urange(1, 3);
                let hi = (m.nodes.len() + 3).min(imax::<Ix>().saturating_sub(1)).min(if cap_mode { 254 } else { maxn + 3 });
                // never run a bulk insertion into the index limit (documented capacity panic mid-way)
                let room = m.edges.iter().filter(|x| x.is_none()).count() + imax::<Ix>().saturating_sub(m.edges.len());
                let edges_full = room < k + 1;
                if hi == 0 || edges_full {
                    continue;
                }
                let mut es = vec![];
                for _ in 0..k {
                    let w = m.fresh_w();
                    // vacant indices are deliberately frequent targets
                    let pick = |rng: &mut Rng, m: &Model| {
                        let vac: Vec<usize> = (0..m.nodes.len()).filter(|&i| !m.node_live(i)).collect();
                        if !vac.is_empty() && rng.coin() { vac[rng.below(vac.len())] } else { rng.below(hi + 1).min(hi) }
                    };
                    es.push((pick(rng, &m), pick(rng, &m), w));
                }
                cx.log(|| format!("#{} extend_with_edges({:?})", step, es));
                g.extend_with_edges(es.iter().map(|&(a, b, w)| (NodeIndex::<Ix>::new(a), NodeIndex::<Ix>::new(b), w)));
                let mut created = vec![];
                for &(a, b, _) in &es {
                    for x in [a, b] {
                        while m.nodes.len() <= x {
                            m.nodes.push(None);
                        }
                        if m.nodes[x].is_none() {
                            m.nodes[x] = Some(0);
                            created.push(x);
                        }
                    }
                }
                // adopt the edge indices by the unique weights
                let by_w: std::collections::BTreeMap<u32, usize> = g.edge_references().map(|e| (*e.weight(), e.id().index())).collect();
                for &(a, b, w) in &es {
                    match by_w.get(&w) {
                        Some(&idx) => adopt_new_edge(cx, &mut m, idx, a, b, w, "extend_with_edges")?,
                        None => cx.ensure(false, "StableGraph:extend_with_edges-edge-missing", || format!("edge with weight {} not found", w))?,
                    }
                }
                for x in created {
                    let w = m.fresh_w();
                    match g.node_weight_mut(NodeIndex::new(x)) {
                        Some(v) => {
                            cx.ensure(*v == 0, "StableGraph:extend_with_edges-node-not-default", || format!("node {} has weight {}", x, *v))?;
                            *v = w;
                        }
                        None => cx.ensure(false, "StableGraph:extend_with_edges-node-missing", || format!("node {} was not created", x))?,
                    }
                    m.nodes[x] = Some(w);
                }
            }
            11 => {
                cx.log(|| format!("#{} clone / clone_from", step));
                match rng.below(4) {
                    0 => g = g.clone(),
                    1 if snap.is_some() => {
                        // destination: an earlier state of this very history (same prefix, other links and vacancies)
                        let mut other: SG<Ty, Ix> = snap.take().unwrap();
                        cx.log(|| format!("   clone_from into an earlier snapshot with {} nodes / {} edges", other.node_count(), other.edge_count()));
                        other.clone_from(&g);
                        g = other;
                        cx.count("StableGraph:clone_from-into-earlier-snapshot");
                    }
                    _ => {
                        // destination: an unrelated populated graph with vacancies of its own
                        let mut other: SG<Ty, Ix> = StableGraph::with_capacity(0, 0);
                        let n = 1 + rng.below(2 * g.node_count().min(20) + 3);
                        for k in 0..n {
                            other.add_node(1_000_000 + k as u32);
                        }
                        for k in 0..rng.below(2 * g.edge_count().min(30) + 4) {
                            other.add_edge(NodeIndex::new(rng.below(n)), NodeIndex::new(rng.below(n)), 2_000_000 + k as u32);
                        }
                        for _ in 0..rng.below(4) {
                            let ec = other.edge_count();
                            if ec > 0 {
                                let e = other.edge_indices().nth(rng.below(ec)).unwrap();
                                other.remove_edge(e);
                            }
                        }
                        for _ in 0..rng.below(3) {
                            if other.node_count() > 1 {
                                let v = other.node_indices().nth(rng.below(other.node_count())).unwrap();
                                other.remove_node(v);
                            }
                        }
                        cx.log(|| format!("   clone_from into an unrelated graph with {} nodes / {} edges, bounds {} / {}", other.node_count(), other.edge_count(), other.node_bound(), other.edge_bound()));
                        other.clone_from(&g);
                        g = other;
                        cx.count("StableGraph:clone_from-into-populated-graph");
                    }
                }
                if rng.coin() {
                    snap = Some(g.clone());
                }
                check = true;
            }
            12 => {
                cx.log(|| format!("#{} Graph::from(clone): compaction in index order", step));
                let gg: Graph<u32, u32, Ty, Ix> = Graph::from(g.clone());
                let live = m.live_nodes();
                let mut newi = vec![usize::MAX; m.nodes.len()];
                for (k, &a) in live.iter().enumerate() {
                    newi[a] = k;
                }
                let got_n: Vec<u32> = gg.node_weights().copied().collect();
                let want_n: Vec<u32> = live.iter().map(|&a| m.nodes[a].unwrap()).collect();
                cx.ensure(got_n == want_n, "StableGraph:into-Graph-nodes", || format!("{:?} vs {:?}", got_n, want_n))?;
                let got_e: Vec<(usize, usize, u32)> = gg.edge_references().map(|e| (e.source().index(), e.target().index(), *e.weight())).collect();
                let want_e: Vec<(usize, usize, u32)> = m.live_edges().iter().map(|&e| (newi[m.e(e).src], newi[m.e(e).dst], m.e(e).w)).collect();
                cx.ensure(got_e == want_e, "StableGraph:into-Graph-edges", || format!("{:?} vs {:?}", got_e, want_e))?;
                if m.nodes.iter().all(|x| x.is_some()) && m.edges.iter().all(|x| x.is_some()) && rng.coin() {
                    // vacancy-free: the round trip keeps every index
                    g = StableGraph::from(gg);
                    for i in 0..m.edges.len() {
                        let seq = m.next_seq;
                        m.next_seq += 1;
                        m.edges[i].as_mut().unwrap().seq = seq;
                    }
                } else {
                    check = false;
                }
            }
            13 => {
                let live = m.live_nodes();
                if live.len() >= 2 && !cx.skips("index_twice_mut") {
                    let (a, b) = (live[rng.below(live.len())], live[rng.below(live.len())]);
                    let (w1, w2) = (m.fresh_w(), m.fresh_w());
                    cx.log(|| format!("#{} index_twice_mut({}, {})", step, a, b));
                    let r = catch(|| {
                        let (x, y) = g.index_twice_mut(NodeIndex::<Ix>::new(a), NodeIndex::<Ix>::new(b));
                        *x = w1;
                        *y = w2;
                    });
                    match r {
                        Ok(()) => {
                            cx.ensure(a != b, "StableGraph:index_twice_mut-same-index-no-panic", || "did not panic".into())?;
                            m.nodes[a] = Some(w1);
                            m.nodes[b] = Some(w2);
                        }
                        Err(p) => cx.ensure(a == b, "StableGraph:index_twice_mut-unexpected-panic", || format!("panicked: {}", p.short()))?,
                    }
                }
            }
            _ => {
                cx.log(|| format!("#{} boundary probes (retain_*(true), identity filter_map)", step));
                boundary_probes(cx, &mut g, &m)?;
            }
        }
        let vn = m.nodes.iter().filter(|x| x.is_none()).count();
        let ve = m.edges.iter().filter(|x| x.is_none()).count();
        max_vac = (max_vac.0.max(vn), max_vac.1.max(ve));
        if check && (m.nodes.len() <= 14 || step % 10 == 9) {
            full_sweep(cx, &g, &m, step)?;
        }
    }
    // a later valid call must not panic: probes + ten more valid operations
    boundary_probes(cx, &mut g, &m)?;
    for _ in 0..10 {
        let live = m.live_nodes();
        let no_node_room = m.nodes.iter().all(|x| x.is_some()) && m.nodes.len() >= imax::<Ix>();
        let no_edge_room = m.edges.iter().all(|x| x.is_some()) && m.edges.len() >= imax::<Ix>();
        if (live.is_empty() || rng.chance(1, 3)) && !no_node_room {
            let w = m.fresh_w();
            let i = g.add_node(w).index();
            adopt_new_node(cx, &mut m, i, w, "add_node")?;
        } else if !live.is_empty() && !no_edge_room {
            let (a, b) = (live[rng.below(live.len())], live[rng.below(live.len())]);
            let w = m.fresh_w();
            let e = g.add_edge(NodeIndex::new(a), NodeIndex::new(b), w).index();
            adopt_new_edge(cx, &mut m, e, a, b, w, "add_edge")?;
        }
    }
    full_sweep(cx, &g, &m, 1)?;
    boundary_probes(cx, &mut g, &m)?;
    if max_vac.0 >= 2 && max_vac.1 >= 2 {
        cx.count("StableGraph:histories-with>=2-node-and-edge-vacancies");
    }
    cx.count_n("StableGraph:failed-calls", failed_calls);
    cx.note_case(kinds.0 ^ m.structure_hash(), nops >= 10 && max_vac.0 >= 1);
    Ok(())
}

pub fn case(cx: &mut Cx, rng: &mut Rng) -> R {
    let w = rng.below(4);
    if rng.coin() {
        match w {
            0 => history::<Directed, u8>(cx, rng, "u8"),
            1 => history::<Directed, u16>(cx, rng, "u16"),
            2 => history::<Directed, u32>(cx, rng, "u32"),
            _ => history::<Directed, usize>(cx, rng, "usize"),
        }
    } else {
        match w {
            0 => history::<Undirected, u8>(cx, rng, "u8"),
            1 => history::<Undirected, u16>(cx, rng, "u16"),
            2 => history::<Undirected, u32>(cx, rng, "u32"),
            _ => history::<Undirected, usize>(cx, rng, "usize"),
        }
    }
}
