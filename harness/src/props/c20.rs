//! C20 - cliques, DSatur, greedy feedback arc set, transitive reduction/closure, all simple
//! paths, Steiner tree, PageRank - each against its defining specification.

use crate::abs::{gen, gen_family, Abs, GenOpts};
use crate::corr::Back;
use crate::cx::{Cx, R};
use crate::oracle::*;
use crate::rng::Rng;
use petgraph::algo;
use petgraph::visit::*;
use std::hash::Hash;

// ------------------------------------------------------------------ cliques

pub fn maximal_cliques_ref(abs: &Abs) -> Vec<Vec<usize>> {
    let n = abs.n;
    let mut adj = vec![0u32; n];
    for &(u, v, _) in &abs.edges {
        if u != v {
            adj[u] |= 1 << v;
            adj[v] |= 1 << u;
        }
    }
    let is_clique = |m: u32| (0..n).all(|v| m & (1 << v) == 0 || (m & !(1 << v)) & !adj[v] == 0);
    let mut out = vec![];
    for m in 1u32..(1u32 << n) {
        if !is_clique(m) {
            continue;
        }
        // maximal: no vertex outside adjacent to all members
        let maximal = (0..n).all(|v| m & (1 << v) != 0 || m & !adj[v] != 0);
        if maximal {
            out.push((0..n).filter(|&v| m & (1 << v) != 0).collect());
        }
    }
    out.sort();
    out
}

pub fn check_cliques<G>(cx: &mut Cx, abs: &Abs, g: G, ids: &[G::NodeId]) -> R
where
    G: GetAdjacencyMatrix + IntoNodeIdentifiers + IntoNeighbors + NodeIndexable + Copy,
    G::NodeId: Eq + Hash,
{
    let back = Back::new(g, ids);
    let want = maximal_cliques_ref(abs);
    let got = algo::maximal_cliques(g);
    let mut norm: Vec<Vec<usize>> = vec![];
    for c in &got {
        let mut v = vec![];
        for &x in c.iter() {
            v.push(back.abs(cx, g, x, "maximal_cliques")?);
        }
        v.sort_unstable();
        norm.push(v);
    }
    norm.sort();
    if abs.n == 0 {
        // whether the empty set counts as the (only) maximal clique of the empty graph is a
        // convention the statement does not fix: both answers are accepted
        return cx.ensure(norm.is_empty() || norm == vec![Vec::<usize>::new()], "maximal_cliques:empty-graph", || format!("got {:?} on the empty graph", norm));
    }
    let before = norm.len();
    let mut dd = norm.clone();
    dd.dedup();
    cx.ensure(dd.len() == before, "maximal_cliques:duplicate", || format!("a clique is reported twice: {:?}", norm))?;
    cx.ensure(norm == want, "maximal_cliques:set", || format!("got {:?}, the maximal cliques are {:?}", norm, want))
}

// ------------------------------------------------------------------ colouring

pub fn check_dsatur<G>(cx: &mut Cx, abs: &Abs, g: G, ids: &[G::NodeId]) -> R
where
    G: IntoEdges + IntoNodeIdentifiers + Visitable + NodeIndexable + Copy,
    G::NodeId: Eq + Hash,
{
    let (col, k) = algo::dsatur_coloring(g);
    cx.ensure(col.len() == abs.n, "dsatur_coloring:node-count", || format!("{} nodes coloured, graph has {}", col.len(), abs.n))?;
    let mut c = vec![usize::MAX; abs.n];
    for v in 0..abs.n {
        match col.get(&ids[v]) {
            Some(&x) => c[v] = x,
            None => {
                cx.ensure(false, "dsatur_coloring:node-uncoloured", || format!("node {} has no colour", v))?;
            }
        }
    }
    for &(u, v, _) in &abs.edges {
        cx.ensure(c[u] != c[v], "dsatur_coloring:not-proper", || format!("adjacent nodes {} and {} both have colour {}", u, v, c[u]))?;
    }
    let mut used = vec![false; k];
    for v in 0..abs.n {
        cx.ensure(c[v] < k, "dsatur_coloring:colour-out-of-range", || format!("node {} has colour {} but {} colours are reported", v, c[v], k))?;
        used[c[v]] = true;
    }
    cx.ensure(used.iter().all(|&b| b), "dsatur_coloring:colour-count", || format!("{} colours reported, colours used: {:?}", k, c))?;
    // DSatur is exact on bipartite graphs
    let bip = (0..abs.n).all(|s| crate::props::c09::bipartite_ref(abs, s));
    if bip {
        cx.count("dsatur:bipartite-inputs");
        cx.ensure(k <= 2, "dsatur_coloring:bipartite-more-than-2", || format!("bipartite graph coloured with {} colours", k))?;
    }
    Ok(())
}

// ------------------------------------------------------------------ feedback arc set

pub fn check_fas<G>(cx: &mut Cx, abs: &Abs, g: G, ids: &[G::NodeId]) -> R
where
    G: IntoEdgeReferences + GraphProp<EdgeType = petgraph::Directed> + NodeCount + NodeIndexable + Copy,
    G::NodeId: petgraph::graph::GraphIndex,
    G::EdgeId: Eq + Hash,
    G::EdgeWeight: crate::num::Num,
{
    let back = Back::new(g, ids);
    // remaining multiset of edges after removing the returned arcs
    let mut remaining: std::collections::BTreeMap<(usize, usize, i64), i64> = Default::default();
    for &(u, v, w) in &abs.edges {
        *remaining.entry((u, v, w)).or_insert(0) += 1;
    }
    let mut ids_seen = std::collections::HashSet::new();
    let mut cnt = 0;
    for e in algo::greedy_feedback_arc_set(g) {
        cnt += 1;
        cx.ensure(cnt <= abs.m(), "greedy_feedback_arc_set:overrun", || "more arcs than the graph has edges".into())?;
        cx.ensure(ids_seen.insert(e.id()), "greedy_feedback_arc_set:arc-twice", || "the same edge id was returned twice".into())?;
        let (u, v) = (back.abs(cx, g, e.source(), "greedy_feedback_arc_set")?, back.abs(cx, g, e.target(), "greedy_feedback_arc_set")?);
        let w = crate::num::Num::to_i64(*e.weight());
        let c = remaining.entry((u, v, w)).or_insert(0);
        *c -= 1;
        cx.ensure(*c >= 0, "greedy_feedback_arc_set:not-an-edge", || format!("arc {}->{} (weight {}) is not an edge of the graph", u, v, w))?;
    }
    let mut rest = Abs::new(abs.n, true);
    for (&(u, v, w), &c) in &remaining {
        for _ in 0..c {
            rest.add(u, v, w);
        }
    }
    cx.ensure(!rest.has_loops(), "greedy_feedback_arc_set:self-loop-left", || "a self-loop is not in the feedback arc set".into())?;
    let cl = closure(&rest);
    cx.ensure(!has_directed_cycle(&rest, &cl), "greedy_feedback_arc_set:cycle-left", || format!("graph minus the arc set still has a cycle: {:?}", rest.edges))
}

// ------------------------------------------------------------------ transitive reduction / closure

pub fn check_tred(cx: &mut Cx, rng: &mut Rng, abs: &Abs) -> R {
    use petgraph::adj::{NodeIndex as AdjIx, UnweightedList};
    use petgraph::graph::{DiGraph, NodeIndex};
    // abs is a DAG
    let mut g = DiGraph::<u32, i64, u32>::with_capacity(0, 0);
    let perm = rng.perm(abs.n);
    let mut ids = vec![NodeIndex::<u32>::end(); abs.n];
    for &a in &perm {
        ids[a] = g.add_node(a as u32);
    }
    for &(u, v, w) in &abs.edges {
        g.add_edge(ids[u], ids[v], w);
    }
    let topo = match algo::toposort(&g, None) {
        Ok(t) => t,
        Err(_) => {
            cx.ensure(false, "tred:toposort-failed-on-dag", || "toposort failed on a DAG".into())?;
            return Ok(());
        }
    };
    let (res, revmap): (UnweightedList<AdjIx<u32>>, Vec<AdjIx<u32>>) = algo::tred::dag_to_toposorted_adjacency_list(&g, &topo);
    let orig_of_rank: Vec<usize> = topo.iter().map(|&id| g[id] as usize).collect();
    cx.ensure(revmap.len() == abs.n && res.node_count() == abs.n, "dag_to_toposorted_adjacency_list:size", || "wrong node count".into())?;
    for a in 0..abs.n {
        let r = revmap[ids[a].index()] as usize;
        cx.ensure(r < abs.n && orig_of_rank[r] == a, "dag_to_toposorted_adjacency_list:revmap", || format!("revmap of node {} is rank {}, toposort[{}] = node {:?}", a, r, r, orig_of_rank.get(r)))?;
    }
    // res: same edges under ranks, neighbours in topological (ascending) order
    let mut want_edges: Vec<(usize, usize)> = abs.edges.iter().map(|&(u, v, _)| (revmap[ids[u].index()] as usize, revmap[ids[v].index()] as usize)).collect();
    want_edges.sort();
    let mut got_edges = vec![];
    for r in 0..abs.n {
        let ns: Vec<usize> = res.neighbors(r as u32).map(|x| x as usize).collect();
        cx.ensure(ns.windows(2).all(|w| w[0] <= w[1]), "dag_to_toposorted_adjacency_list:neighbour-order", || format!("neighbours of rank {} not in topological order: {:?}", r, ns))?;
        for x in ns {
            got_edges.push((r, x));
        }
    }
    got_edges.sort();
    cx.ensure(got_edges == want_edges, "dag_to_toposorted_adjacency_list:edges", || format!("edges {:?}, expected {:?}", got_edges, want_edges))?;
    let (tred, tclos) = algo::tred::dag_transitive_reduction_closure(&res);
    let cl = closure(abs);
    let mut want_clos = vec![];
    let mut want_red = vec![];
    for u in 0..abs.n {
        for v in 0..abs.n {
            if u != v && cl[u][v] {
                want_clos.push((u, v));
                let direct = abs.has_edge(u, v);
                let via = (0..abs.n).any(|w| w != u && w != v && cl[u][w] && cl[w][v]);
                if direct && !via {
                    want_red.push((u, v));
                }
            }
        }
    }
    for (name, lst, want) in [("closure", &tclos, &want_clos), ("reduction", &tred, &want_red)] {
        cx.ensure(lst.node_count() == abs.n, &format!("dag_transitive_reduction_closure:{}-node-count", name), || "wrong node count".into())?;
        let mut got = vec![];
        for r in 0..abs.n {
            for x in lst.neighbors(r as u32) {
                got.push((orig_of_rank[r], orig_of_rank[x as usize]));
            }
        }
        got.sort();
        let n0 = got.len();
        let mut dd = got.clone();
        dd.dedup();
        cx.ensure(dd.len() == n0, &format!("dag_transitive_reduction_closure:{}-duplicate-edge", name), || format!("{:?}", got))?;
        cx.ensure(&got == want, &format!("dag_transitive_reduction_closure:{}", name), || format!("transitive {} {:?}, expected {:?}", name, got, want))?;
    }
    Ok(())
}

// ------------------------------------------------------------------ simple paths

fn simple_paths_ref(abs: &Abs, a: usize, b: usize, min_i: usize, max_i: Option<usize>) -> Vec<Vec<usize>> {
    let adj = abs.out_adj();
    let mut out = vec![];
    let mut path = vec![a];
    let mut on = vec![false; abs.n];
    on[a] = true;
    fn rec(adj: &[Vec<(usize, usize)>], b: usize, min_i: usize, max_i: Option<usize>, path: &mut Vec<usize>, on: &mut Vec<bool>, out: &mut Vec<Vec<usize>>) {
        let u = *path.last().unwrap();
        for &(v, _) in &adj[u] {
            if v == b {
                let inter = path.len() - 1;
                if inter >= min_i && max_i.map_or(true, |m| inter <= m) {
                    let mut p = path.clone();
                    p.push(b);
                    out.push(p);
                }
            } else if !on[v] {
                on[v] = true;
                path.push(v);
                rec(adj, b, min_i, max_i, path, on, out);
                path.pop();
                on[v] = false;
            }
        }
    }
    rec(&adj, b, min_i, max_i, &mut path, &mut on, &mut out);
    out.sort();
    out
}

pub fn check_simple_paths<G>(cx: &mut Cx, rng: &mut Rng, abs: &Abs, g: G, ids: &[G::NodeId]) -> R
where
    G: NodeCount + IntoNeighborsDirected + NodeIndexable + Copy,
    G::NodeId: Eq + Hash,
{
    if abs.n < 2 {
        return Ok(());
    }
    let back = Back::new(g, ids);
    for _ in 0..3 {
        let a = rng.below(abs.n);
        let mut b = rng.below(abs.n - 1);
        if b >= a {
            b += 1;
        }
        let min_i = rng.below(4);
        let max_i = if rng.chance(1, 3) { None } else { Some(rng.below(4)) };
        let want = simple_paths_ref(abs, a, b, min_i, max_i);
        let cap = want.len() + 1;
        let got: Vec<Vec<G::NodeId>> = algo::all_simple_paths::<Vec<_>, _, std::collections::hash_map::RandomState>(g, ids[a], ids[b], min_i, max_i).take(cap).collect();
        let mut norm = vec![];
        for p in &got {
            let mut v = vec![];
            for &x in p {
                v.push(back.abs(cx, g, x, "all_simple_paths")?);
            }
            norm.push(v);
        }
        norm.sort();
        let desc = format!("from {} to {} with {}..={:?} intermediate nodes", a, b, min_i, max_i);
        cx.ensure(norm.len() <= want.len(), "all_simple_paths:too-many", || format!("{}: more than the {} existing paths; got {:?}", desc, want.len(), norm))?;
        let mut dd = norm.clone();
        dd.dedup();
        cx.ensure(dd.len() == norm.len(), "all_simple_paths:duplicate", || format!("{}: a path was yielded twice: {:?}", desc, norm))?;
        cx.ensure(norm == want, "all_simple_paths:set", || format!("{}: got {:?}, expected {:?}", desc, norm, want))?;
        cx.count_n("simple-paths-compared", want.len() as u64);
        if min_i > max_i.unwrap_or(usize::MAX) {
            cx.count("simple-paths:min>max");
        }
    }
    Ok(())
}

// ------------------------------------------------------------------ Steiner tree

fn steiner_opt(abs: &Abs, terms: &[usize]) -> Option<i64> {
    let n = abs.n;
    let tmask: u32 = terms.iter().fold(0, |m, &t| m | (1 << t));
    let mut best: Option<i64> = None;
    for m in 0u32..(1u32 << n) {
        if m & tmask != tmask {
            continue;
        }
        // MST of the subgraph induced by m, must be connected
        let mut es: Vec<(i64, usize, usize)> = abs.edges.iter().filter(|e| m & (1 << e.0) != 0 && m & (1 << e.1) != 0 && e.0 != e.1).map(|e| (e.2, e.0, e.1)).collect();
        es.sort();
        let mut d = Dsu::new(n);
        let mut tot = 0;
        let mut comps = m.count_ones() as usize;
        for (w, u, v) in es {
            if d.union(u, v) {
                tot += w;
                comps -= 1;
            }
        }
        if comps == 1 && best.map_or(true, |b| tot < b) {
            best = Some(tot);
        }
    }
    best
}

pub fn check_steiner(cx: &mut Cx, rng: &mut Rng, abs: &Abs) -> R {
    use petgraph::graph::UnGraph;
    if abs.n < 2 {
        return Ok(());
    }
    let (lab, _) = weak_components(abs);
    // terminals: 2..4 distinct nodes of one component
    let c0 = lab[rng.below(abs.n)];
    let mut members: Vec<usize> = (0..abs.n).filter(|&v| lab[v] == c0).collect();
    if members.len() < 2 {
        return Ok(());
    }
    rng.shuffle(&mut members);
    let kmax = if rng.coin() { 4 } else { 7 };
    let k = rng.urange(2, members.len().min(kmax));
    let terms: Vec<usize> = members[..k].to_vec();
    let mut g = UnGraph::<u32, i64, u32>::with_capacity(0, 0);
    let ids: Vec<_> = (0..abs.n).map(|i| g.add_node(i as u32)).collect();
    for &(u, v, w) in &abs.edges {
        g.add_edge(ids[u], ids[v], w);
    }
    let tids: Vec<_> = terms.iter().map(|&t| ids[t]).collect();
    let t = algo::steiner_tree::steiner_tree(&g, &tids);
    cx.log(|| format!("steiner terminals {:?} -> {} nodes {} edges", terms, t.node_count(), t.edge_count()));
    // subgraph of g with matching indices and weights
    let mut in_tree = vec![false; abs.n];
    for i in t.node_indices() {
        cx.ensure(i.index() < abs.n && t[i] == i.index() as u32, "steiner_tree:node-not-in-graph", || format!("result node {:?} with weight {:?}", i, t.node_weight(i)))?;
        in_tree[i.index()] = true;
    }
    let mut deg = vec![0usize; abs.n];
    let mut pairs = vec![];
    let mut tot = 0i64;
    let mut avail: std::collections::BTreeMap<(usize, usize, i64), i64> = Default::default();
    for &(u, v, w) in &abs.edges {
        *avail.entry((u.min(v), u.max(v), w)).or_insert(0) += 1;
    }
    for e in t.edge_references() {
        let (u, v, w) = (e.source().index(), e.target().index(), *e.weight());
        let c = avail.entry((u.min(v), u.max(v), w)).or_insert(0);
        *c -= 1;
        cx.ensure(*c >= 0, "steiner_tree:edge-not-in-graph", || format!("result edge {}-{} weight {} is not an edge of the graph", u, v, w))?;
        deg[u] += 1;
        deg[v] += 1;
        pairs.push((u, v));
        tot += w;
    }
    for &x in &terms {
        cx.ensure(in_tree[x], "steiner_tree:terminal-missing", || format!("terminal {} is not in the result (terminals {:?})", x, terms))?;
    }
    let nv = in_tree.iter().filter(|&&b| b).count();
    cx.ensure(is_forest(abs.n, &pairs) && pairs.len() + 1 == nv, "steiner_tree:not-a-tree", || {
        format!("terminals {:?}: result has {} nodes and edges {:?} - not a tree", terms, nv, pairs)
    })?;
    for v in 0..abs.n {
        if in_tree[v] && deg[v] <= 1 && nv > 1 {
            cx.ensure(terms.contains(&v), "steiner_tree:non-terminal-leaf", || format!("leaf {} is not a terminal (terminals {:?}, edges {:?})", v, terms, pairs))?;
        }
    }
    let opt = steiner_opt(abs, &terms).expect("terminals connected");
    cx.ensure(tot <= 2 * opt, "steiner_tree:worse-than-2-approx", || format!("terminals {:?}: weight {}, optimum {}", terms, tot, opt))?;
    cx.ensure(tot >= opt, "steiner_tree:below-optimum(oracle-or-library-bug)", || format!("weight {} below the optimum {}", tot, opt))?;
    Ok(())
}

// ------------------------------------------------------------------ PageRank

pub fn check_page_rank<G>(cx: &mut Cx, abs: &Abs, g: G, ids: &[G::NodeId], g2: G, ids2: &[G::NodeId]) -> R
where
    G: NodeCount + IntoEdges + NodeIndexable + Copy,
{
    // g2/ids2 encode the same abstract graph under another labelling / insertion order
    let iters = 30;
    let r1: Vec<f64> = algo::page_rank(g, 0.85f64, iters);
    let r2: Vec<f64> = algo::page_rank(g2, 0.85f64, iters);
    cx.ensure(r1.len() == abs.n && r2.len() == abs.n, "page_rank:length", || format!("{} / {} ranks for {} nodes", r1.len(), r2.len(), abs.n))?;
    if abs.n == 0 {
        return Ok(());
    }
    for (which, r) in [("first", &r1), ("relabelled", &r2)] {
        cx.ensure(r.iter().all(|&x| x >= 0.0 && x.is_finite()), "page_rank:negative-or-nan", || format!("{} encoding: ranks {:?}", which, r))?;
        let s: f64 = r.iter().sum();
        cx.ensure((s - 1.0).abs() <= 1e-9 * abs.n as f64, "page_rank:sum", || format!("{} encoding: ranks sum to {}", which, s))?;
    }
    for v in 0..abs.n {
        let (a, b) = (r1[g.to_index(ids[v])], r2[g2.to_index(ids2[v])]);
        cx.ensure((a - b).abs() <= 1e-9 * a.abs().max(b.abs()).max(1e-3), "page_rank:not-carried-by-relabeling", || {
            format!("node {}: rank {} in one encoding, {} in the relabelled one", v, a, b)
        })?;
    }
    Ok(())
}

// ------------------------------------------------------------------ driver

pub fn case(cx: &mut Cx, rng: &mut Rng) -> R {
    let small = cx.small;
    // ---- cliques + colouring: undirected simple loop-free
    let nmax = if small { 6 } else if rng.chance(1, 8) { 11 } else { 8 };
    let und = gen(rng, &GenOpts::new(nmax).directed(false).simple(true).loops(false));
    cx.log(|| format!("cliques/colouring input: {}", und.describe()));
    with_enc!(one, &und, rng, i64, |w| w,
        directed: [GraphU8],
        undirected: [GraphU8, GraphShuf, GraphUsize, StableHoles, StableU8, GMap, Matrix, CsrT],
        |g, ids, tag| {
            cx.config = tag.name().to_string();
            cx.count(&format!("cell:cliques+dsatur/{}", tag.name()));
            let _ = check_cliques(cx, &und, g, ids);
            let _ = check_dsatur(cx, &und, g, ids);
        });
    // extra colouring inputs: trees / bipartite (DSatur must be exact there)
    if rng.chance(1, 2) {
        let fam = *rng.pick(&["tree", "forest", "bipartite", "grid", "star", "path"]);
        let big = if small { 8 } else { 16 };
        let t = gen_family(rng, &GenOpts::new(big).directed(false).simple(true).loops(false), fam);
        cx.log(|| format!("bipartite colouring input: {}", t.describe()));
        with_enc!(one, &t, rng, i64, |w| w,
            directed: [GraphU8],
            undirected: [GraphU8, GraphShuf, StableHoles, GMap, Matrix, CsrT],
            |g, ids, tag| {
                cx.config = tag.name().to_string();
                let _ = check_dsatur(cx, &t, g, ids);
            });
    }
    // ---- feedback arc set + simple paths: directed multigraph
    let dig = gen(rng, &GenOpts::new(if small { 5 } else { 8 }).directed(true));
    cx.log(|| format!("feedback-arc-set input: {}", dig.describe()));
    with_enc!(one, &dig, rng, i64, |w| w,
        directed: [GraphU8, GraphShuf, GraphUsize, StableHoles, StableU8, Matrix],
        undirected: [],
        |g, ids, tag| {
            cx.config = tag.name().to_string();
            cx.count(&format!("cell:greedy_feedback_arc_set/{}", tag.name()));
            let _ = check_fas(cx, &dig, g, ids);
        });
    let mut po = GenOpts::new(if small { 5 } else { 7 }).simple(true);
    if rng.chance(3, 4) {
        po.directed = Some(true);
    }
    let pg = gen(rng, &po);
    cx.log(|| format!("simple-paths input: {}", pg.describe()));
    with_enc!(one, &pg, rng, i64, |w| w,
        directed: [GraphU8, GraphShuf, GraphUsize, StableHoles, StableU8, GMap, Matrix],
        undirected: [GraphU8, GraphShuf, GraphUsize, StableHoles, StableU8, GMap],
        |g, ids, tag| {
            cx.config = tag.name().to_string();
            cx.count(&format!("cell:all_simple_paths/{}", tag.name()));
            let _ = check_simple_paths(cx, rng, &pg, g, ids);
        });
    // ---- transitive reduction / closure on a DAG
    let fam = *rng.pick(&["dag", "dag", "layered", "tree", "path"]);
    let mut dag = gen_family(rng, &GenOpts::new(if small { 6 } else { 9 }).directed(true).loops(false), fam);
    if matches!(fam, "tree" | "path") {
        // orient forward to make it a DAG
        for e in dag.edges.iter_mut() {
            if e.0 > e.1 {
                std::mem::swap(&mut e.0, &mut e.1);
            }
        }
    }
    cx.log(|| format!("tred input: {}", dag.describe()));
    cx.config = "Graph<u32>/permuted".into();
    let _ = check_tred(cx, rng, &dag);
    // ---- Steiner: undirected simple, positive weights with ties
    // (a third with unit weights and cycle-rich families: equally short alternative routes make the union of the chosen
    // shortest paths cyclic, and which of them are chosen follows the hash order of the call - hence repeated calls)
    let (lo, hi) = match rng.below(3) {
        0 => (1, 1),
        1 => (1, 2),
        _ => (1, 9),
    };
    let so = GenOpts::new(if small { 6 } else { 9 }).directed(false).simple(true).loops(false).weights(lo, hi);
    let st = if lo == hi {
        let fam = *rng.pick(&["grid", "cycle", "blocks", "petersen", "oddcycle_tails", "bipartite", "gnp", "complete"]);
        gen_family(rng, &so, fam)
    } else {
        gen(rng, &so)
    };
    cx.log(|| format!("steiner input: {}", st.describe()));
    cx.config = "UnGraph<u32>".into();
    for _ in 0..if lo == hi { 3 } else { 1 } {
        let _ = check_steiner(cx, rng, &st);
    }
    // ---- PageRank: directed multigraph, two encodings of the same graph
    let pr = gen(rng, &GenOpts::new(if small { 5 } else { 9 }).directed(true));
    cx.log(|| format!("page_rank input: {}", pr.describe()));
    {
        use petgraph::graph::Graph;
        let e1 = crate::enc::graph_direct::<petgraph::Directed, u32, i64>(&pr, rng, |w| w);
        let e2 = crate::enc::graph_permuted::<petgraph::Directed, u32, i64>(&pr, rng, |w| w);
        cx.config = "Graph<u32> vs Graph<u32>/permuted".into();
        let _: &Graph<u32, i64, petgraph::Directed, u32> = &e1.g;
        let _ = check_page_rank(cx, &pr, &e1.g, &e1.ids, &e2.g, &e2.ids);
        if pr.is_simple() {
            let m1 = crate::enc::graphmap::<petgraph::Directed, i64>(&pr, rng, |w| w);
            let m2 = crate::enc::graphmap::<petgraph::Directed, i64>(&pr, rng, |w| w);
            cx.config = "GraphMap vs GraphMap/other-order".into();
            let _ = check_page_rank(cx, &pr, &m1.g, &m1.ids, &m2.g, &m2.ids);
            let c1 = crate::enc::csr::<petgraph::Directed, i64>(&pr, rng, |w| w);
            let perm = rng.perm(pr.n);
            let prp = pr.relabel(&perm);
            let c2 = crate::enc::csr::<petgraph::Directed, i64>(&prp, rng, |w| w);
            let ids2: Vec<u32> = (0..pr.n).map(|v| c2.ids[perm[v]]).collect();
            cx.config = "Csr vs Csr/relabelled".into();
            let _ = check_page_rank(cx, &pr, &c1.g, &c1.ids, &c2.g, &ids2);
        }
        let l1 = crate::enc::list::<i64>(&pr, rng, |w| w);
        let perm = rng.perm(pr.n);
        let prp = pr.relabel(&perm);
        let l2 = crate::enc::list::<i64>(&prp, rng, |w| w);
        let ids2: Vec<u32> = (0..pr.n).map(|v| l2.ids[perm[v]]).collect();
        cx.config = "adj::List vs adj::List/relabelled".into();
        let _ = check_page_rank(cx, &pr, &l1.g, &l1.ids, &l2.g, &ids2);
    }
    let mut h = crate::cx::H::new();
    for a in [&und, &dig, &pg, &dag, &st, &pr] {
        h.add(a.hash());
    }
    let nt = [&und, &dig, &pg, &dag, &st, &pr].iter().filter(|a| a.n >= 3 && a.m() >= 2).count();
    cx.note_case(h.0, nt >= 4);
    Ok(())
}
