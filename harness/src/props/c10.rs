//! C10 - dijkstra, astar, k_shortest_path against exact distances and the k-smallest-walk
//! multiset fixpoint.

use crate::abs::{gen, Abs, GenOpts};
use crate::cx::{Cx, R};
use crate::num::Num;
use crate::oracle::*;
use crate::rng::Rng;
use petgraph::algo;
use petgraph::visit::*;
use std::hash::Hash;

/// HashMap<NodeId, K> -> per abs node Option<i64>; a key that is no node of the graph is a violation
fn norm_map<N: Copy + Eq + Hash, K: Num>(
    cx: &mut Cx,
    ids: &[N],
    m: &hashbrown::HashMap<N, K>,
    what: &str,
) -> R<Vec<Option<i64>>> {
    let v: Vec<Option<i64>> = ids.iter().map(|id| m.get(id).map(|k| k.to_i64())).collect();
    let some = v.iter().filter(|x| x.is_some()).count();
    cx.ensure(some == m.len(), &format!("{}:alien-key", what), || {
        format!("result has {} entries but only {} belong to nodes of the graph", m.len(), some)
    })?;
    Ok(v)
}

pub fn check_dijkstra<G, K: Num>(cx: &mut Cx, rng: &mut Rng, abs: &Abs, g: G, ids: &[G::NodeId]) -> R
where
    G: IntoEdges + Visitable + Copy,
    G::NodeId: Eq + Hash,
    G::EdgeWeight: Num,
{
    if abs.n == 0 {
        return Ok(());
    }
    let _ = std::marker::PhantomData::<K>;
    let s = rng.below(abs.n);
    let d = bf_ref(abs, s).expect("non-negative weights");
    let got = algo::dijkstra(g, ids[s], None, |e| *e.weight());
    let gv = norm_map(cx, ids, &got, "dijkstra")?;
    cx.ensure(gv == d, "dijkstra(None):distances", || format!("source {}: got {:?}, true distances {:?}", s, gv, d))?;
    // with a goal
    let t = rng.below(abs.n);
    let got = algo::dijkstra(g, ids[s], Some(ids[t]), |e| *e.weight());
    let gv = norm_map(cx, ids, &got, "dijkstra(goal)")?;
    cx.ensure(gv[t] == d[t], "dijkstra(goal):goal-entry", || {
        format!("source {} goal {}: goal entry {:?}, true distance {:?}", s, t, gv[t], d[t])
    })?;
    for v in 0..abs.n {
        if let Some(x) = gv[v] {
            cx.ensure(d[v].is_some() && x >= d[v].unwrap(), "dijkstra(goal):upper-bound", || {
                format!("source {} goal {}: entry for {} is {}, true distance {:?}", s, t, v, x, d[v])
            })?;
        }
        if let (Some(dv), Some(dt)) = (d[v], d[t]) {
            if dv < dt {
                cx.ensure(gv[v] == Some(dv), "dijkstra(goal):closer-exact", || {
                    format!("source {} goal {}: node {} is closer ({} < {}) but its entry is {:?}", s, t, v, dv, dt, gv[v])
                })?;
            }
        }
    }
    Ok(())
}

pub fn check_astar<G>(cx: &mut Cx, rng: &mut Rng, abs: &Abs, g: G, ids: &[G::NodeId]) -> R
where
    G: IntoEdges + Visitable + NodeIndexable + Copy,
    G::NodeId: Eq + Hash,
    G::EdgeWeight: Num,
{
    if abs.n == 0 {
        return Ok(());
    }
    let back = crate::corr::Back::new(g, ids);
    let s = rng.below(abs.n);
    let d = bf_ref(abs, s).expect("non-negative weights");
    let ngoals = rng.urange(1, 3.min(abs.n));
    let goals: Vec<usize> = (0..ngoals).map(|_| rng.below(abs.n)).collect();
    let is_goal: Vec<bool> = (0..abs.n).map(|v| goals.contains(&v)).collect();
    // true cost-to-go to the nearest goal, per node (reverse graph)
    let mut rev = abs.clone();
    if abs.directed {
        for e in rev.edges.iter_mut() {
            std::mem::swap(&mut e.0, &mut e.1);
        }
    }
    let mut togo: Vec<Option<i64>> = vec![None; abs.n];
    for &t in &goals {
        let dt = bf_ref(&rev, t).unwrap();
        for v in 0..abs.n {
            if let Some(x) = dt[v] {
                if togo[v].map_or(true, |y| x < y) {
                    togo[v] = Some(x);
                }
            }
        }
    }
    let best: Option<i64> = goals.iter().filter_map(|&t| d[t]).min();
    for hmode in 0..3 {
        // 0: zero, 1: exact (consistent), 2: random admissible (usually inconsistent)
        let h: Vec<i64> = (0..abs.n)
            .map(|v| match (hmode, togo[v]) {
                (0, _) => 0,
                (1, Some(x)) => x,
                (1, None) => 1000,
                (_, Some(x)) => rng.range(0, x),
                (_, None) => rng.range(0, 50),
            })
            .collect();
        let hname = ["zero", "exact", "admissible-random"][hmode];
        let res = algo::astar(
            g,
            ids[s],
            |n| back.get(g, n).map_or(false, |a| is_goal[a]),
            |e| *e.weight(),
            |n| <G::EdgeWeight as Num>::from_i64(back.get(g, n).map_or(0, |a| h[a])),
        );
        cx.log(|| format!("astar source {} goals {:?} h({})={:?} -> {:?}", s, goals, hname, h, res.as_ref().map(|r| (r.0, r.1.len()))));
        match res {
            None => cx.ensure(best.is_none(), &format!("astar[{}]:none-but-reachable", hname), || {
                format!("source {} goals {:?}: None, but a goal is at distance {:?}", s, goals, best)
            })?,
            Some((cost, path)) => {
                cx.ensure(best.is_some(), &format!("astar[{}]:some-but-unreachable", hname), || {
                    format!("source {} goals {:?}: returned a path but no goal is reachable", s, goals)
                })?;
                let mut p = vec![];
                for &id in &path {
                    p.push(back.abs(cx, g, id, "astar")?);
                }
                cx.ensure(p.first() == Some(&s), &format!("astar[{}]:path-start", hname), || format!("path {:?} does not start at {}", p, s))?;
                cx.ensure(p.last().map_or(false, |&l| is_goal[l]), &format!("astar[{}]:path-end", hname), || format!("path {:?} does not end in a goal {:?}", p, goals))?;
                let mut sum = 0i64;
                for w in p.windows(2) {
                    let mw = abs.min_w(w[0], w[1]);
                    cx.ensure(mw.is_some(), &format!("astar[{}]:path-edge-missing", hname), || format!("path {:?}: no edge {}->{}", p, w[0], w[1]))?;
                    sum += mw.unwrap();
                }
                let c = cost.to_i64();
                cx.ensure(c == sum, &format!("astar[{}]:cost-vs-path", hname), || format!("reported cost {} but the path {:?} costs {}", c, p, sum))?;
                cx.ensure(Some(c) == best, &format!("astar[{}]:not-optimal", hname), || {
                    format!("source {} goals {:?} h={:?}: cost {} via {:?}, nearest goal is at {:?}", s, goals, h, c, p, best)
                })?;
            }
        }
    }
    Ok(())
}

/// k smallest walk costs from s to every node (multiset), by fixpoint iteration
pub fn k_walks_ref(abs: &Abs, s: usize, k: usize) -> Vec<Vec<i64>> {
    let mut arcs: Vec<(usize, usize, i64)> = vec![];
    for &(u, v, w) in &abs.edges {
        arcs.push((u, v, w));
        if !abs.directed && u != v {
            arcs.push((v, u, w));
        }
    }
    let mut d: Vec<Vec<i64>> = vec![vec![]; abs.n];
    d[s] = vec![0];
    loop {
        let mut nd: Vec<Vec<i64>> = vec![vec![]; abs.n];
        nd[s].push(0);
        for &(u, v, w) in &arcs {
            for &c in &d[u] {
                nd[v].push(c + w);
            }
        }
        for l in nd.iter_mut() {
            l.sort_unstable();
            l.truncate(k);
        }
        if nd == d {
            return d;
        }
        d = nd;
    }
}

pub fn check_k_shortest<G>(cx: &mut Cx, rng: &mut Rng, abs: &Abs, g: G, ids: &[G::NodeId]) -> R
where
    G: IntoEdges + Visitable + NodeCount + NodeIndexable + Copy,
    G::NodeId: Eq + Hash,
    G::EdgeWeight: Num,
{
    if abs.n == 0 {
        return Ok(());
    }
    let s = rng.below(abs.n);
    let k = rng.urange(1, 5);
    let walks = k_walks_ref(abs, s, k);
    let want: Vec<Option<i64>> = walks.iter().map(|l| l.get(k - 1).copied()).collect();
    let got = algo::k_shortest_path(g, ids[s], None, k, |e| *e.weight());
    let gv = norm_map(cx, ids, &got, "k_shortest_path")?;
    cx.ensure(gv == want, "k_shortest_path:kth-walk-cost", || {
        format!("source {} k={}: got {:?}, k-th cheapest walk costs {:?}", s, k, gv, want)
    })?;
    if k == 1 {
        let dj = algo::dijkstra(g, ids[s], None, |e| *e.weight());
        let dv = norm_map(cx, ids, &dj, "dijkstra")?;
        cx.ensure(gv == dv, "k_shortest_path(k=1)==dijkstra", || format!("{:?} vs {:?}", gv, dv))?;
    }
    Ok(())
}

macro_rules! c10_on {
    ($cx:expr, $rng:expr, $abs:expr, $W:ty) => {{
        let abs: &Abs = $abs;
        with_enc!(one, abs, $rng, $W, |w| <$W as Num>::from_i64(w),
            directed: [GraphU8, GraphShuf, GraphUsize, StableHoles, StableU8, GMap, Matrix, CsrT, ListT],
            undirected: [GraphU8, GraphShuf, GraphUsize, StableHoles, StableU8, GMap, Matrix, CsrT],
            |g, ids, tag| {
                $cx.config = format!("{}/{}", tag.name(), <$W as Num>::NAME);
                $cx.count(&format!("cell:{}/{}", tag.name(), <$W as Num>::NAME));
                let _ = check_dijkstra::<_, $W>($cx, $rng, abs, g, ids);
                let _ = check_astar($cx, $rng, abs, g, ids);
                let _ = check_k_shortest($cx, $rng, abs, g, ids);
            });
    }};
}

pub fn case(cx: &mut Cx, rng: &mut Rng) -> R {
    let nmax = if cx.small { 5 } else if rng.chance(1, if cx.thorough { 40 } else { 150 }) { 40 } else if rng.chance(1, 10) { 12 } else { 7 };
    let wmode = rng.below(4);
    let (lo, hi) = match wmode {
        0 => (0, 9),
        1 => (1, 2),  // heavy ties
        2 => (0, 1),  // many zero-cost edges / cycles
        _ => (0, 30),
    };
    let o = GenOpts::new(nmax).weights(lo, hi);
    let abs = gen(rng, &o);
    cx.log(|| abs.describe());
    cx.note_case(abs.hash(), abs.n >= 3 && abs.m() >= 2);
    cx.count(&format!("family:{}", abs.family));
    if abs.has_parallel() {
        cx.count("feature:parallel-edges");
    }
    if abs.edges.iter().any(|e| e.2 == 0) {
        cx.count("feature:zero-cost-edge");
    }
    match rng.below(4) {
        0 => c10_on!(cx, rng, &abs, u32),
        1 => c10_on!(cx, rng, &abs, i64),
        2 => c10_on!(cx, rng, &abs, f32),
        _ => c10_on!(cx, rng, &abs, f64),
    }
    Ok(())
}
