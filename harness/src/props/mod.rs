pub mod c09;
