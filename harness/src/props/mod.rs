pub mod c08;
pub mod c09;
pub mod c10;
pub mod c11;
pub mod c12;
pub mod c15;
pub mod c16;
