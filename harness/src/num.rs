//! Cost types the monitors instantiate the algorithms with.  All workloads use small integers,
//! so every sum is exact in every type and equality (not tolerance) is the oracle.

use petgraph::algo::Measure;

pub trait Num: Measure + Copy + PartialEq + std::fmt::Debug + 'static {
    const NAME: &'static str;
    const SIGNED: bool;
    fn from_i64(x: i64) -> Self;
    fn to_i64(self) -> i64;
}

macro_rules! num_int {
    ($($t:ty, $s:expr);*) => {$(
        impl Num for $t {
            const NAME: &'static str = stringify!($t);
            const SIGNED: bool = $s;
            fn from_i64(x: i64) -> Self { x as $t }
            fn to_i64(self) -> i64 { self as i64 }
        }
    )*};
}
num_int!(u32, false; u64, false; i32, true; i64, true; usize, false);

macro_rules! num_float {
    ($($t:ty),*) => {$(
        impl Num for $t {
            const NAME: &'static str = stringify!($t);
            const SIGNED: bool = true;
            // i64::MIN is the workloads' token for "not a number" (only ever put on self-loops, which no answer may use)
            fn from_i64(x: i64) -> Self { if x == i64::MIN { <$t>::NAN } else { x as $t } }
            fn to_i64(self) -> i64 {
                // a non-integral / non-finite value can never equal an oracle value
                if self.fract() == 0.0 && self.abs() < 1e15 { self as i64 } else { i64::MIN + 7 }
            }
        }
    )*};
}
num_float!(f32, f64);
