//! Node correspondence helpers: NodeId -> abs index.

use crate::cx::{Cx, R, Stop};
use petgraph::visit::NodeIndexable;

pub const NONE: usize = usize::MAX;

pub struct Back {
    by_index: Vec<usize>,
}

impl Back {
    pub fn new<G: NodeIndexable>(g: G, ids: &[G::NodeId]) -> Back {
        let mut by_index = vec![NONE; g.node_bound()];
        for (a, &id) in ids.iter().enumerate() {
            let i = g.to_index(id);
            if i >= by_index.len() {
                by_index.resize(i + 1, NONE);
            }
            by_index[i] = a;
        }
        Back { by_index }
    }
    /// abs index of a node id the library handed back; a violation if it is not a node of the graph
    pub fn abs<G: NodeIndexable>(&self, cx: &mut Cx, g: G, id: G::NodeId, what: &str) -> R<usize> {
        let i = g.to_index(id);
        match self.by_index.get(i) {
            Some(&a) if a != NONE => Ok(a),
            _ => {
                cx.violation(
                    &format!("{}:alien-node", what),
                    format!("{} returned a node (index {}) that is not a live node of the graph", what, i),
                );
                Err(Stop)
            }
        }
    }
    pub fn get<G: NodeIndexable>(&self, g: G, id: G::NodeId) -> Option<usize> {
        match self.by_index.get(g.to_index(id)) {
            Some(&a) if a != NONE => Some(a),
            _ => None,
        }
    }
}
