//! Definition-level oracles on the abstract graph.  Deliberately naive.

use crate::abs::Abs;

/// reflexive-transitive reachability matrix (direction respected for directed graphs)
pub fn closure(g: &Abs) -> Vec<Vec<bool>> {
    let n = g.n;
    let mut r = vec![vec![false; n]; n];
    for i in 0..n {
        r[i][i] = true;
    }
    for &(u, v, _) in &g.edges {
        r[u][v] = true;
        if !g.directed {
            r[v][u] = true;
        }
    }
    for k in 0..n {
        for i in 0..n {
            if r[i][k] {
                for j in 0..n {
                    if r[k][j] {
                        r[i][j] = true;
                    }
                }
            }
        }
    }
    r
}

/// BFS reachability from a set of starts (cross-check for closure; also hop distances)
pub fn hops_from(g: &Abs, starts: &[usize]) -> Vec<Option<usize>> {
    let adj = g.out_adj();
    let mut d = vec![None; g.n];
    let mut q = std::collections::VecDeque::new();
    for &s in starts {
        if d[s].is_none() {
            d[s] = Some(0);
            q.push_back(s);
        }
    }
    while let Some(u) = q.pop_front() {
        for &(v, _) in &adj[u] {
            if d[v].is_none() {
                d[v] = Some(d[u].unwrap() + 1);
                q.push_back(v);
            }
        }
    }
    d
}

/// strongly connected classes as a label vector (label = smallest member)
pub fn scc_labels(g: &Abs, cl: &[Vec<bool>]) -> Vec<usize> {
    (0..g.n)
        .map(|v| (0..g.n).find(|&u| cl[u][v] && cl[v][u]).unwrap())
        .collect()
}

/// weak components: label vector and count
pub fn weak_components(g: &Abs) -> (Vec<usize>, usize) {
    let mut lab: Vec<usize> = (0..g.n).collect();
    // O(n*m) relabel; sizes are tiny
    for &(u, v, _) in &g.edges {
        let (a, b) = (lab[u], lab[v]);
        if a != b {
            for x in lab.iter_mut() {
                if *x == b {
                    *x = a;
                }
            }
        }
    }
    let mut ds = lab.clone();
    ds.sort_unstable();
    ds.dedup();
    (lab, ds.len())
}

pub fn has_directed_cycle(g: &Abs, cl: &[Vec<bool>]) -> bool {
    // a cycle exists iff some edge u->v has v reaching u
    g.edges.iter().any(|&(u, v, _)| cl[v][u])
}

/// nodes lying on some directed cycle
pub fn on_cycle(g: &Abs, cl: &[Vec<bool>]) -> Vec<bool> {
    let mut oc = vec![false; g.n];
    for &(u, v, _) in &g.edges {
        if cl[v][u] {
            // every node x with u->*x? no: nodes on a cycle through edge (u,v): x with v->*x and x->*u
            for x in 0..g.n {
                if cl[v][x] && cl[x][u] {
                    oc[x] = true;
                }
            }
        }
    }
    oc
}

/// Reference Bellman-Ford: Err(()) iff a negative cycle is reachable from s.
pub fn bf_ref(g: &Abs, s: usize) -> Result<Vec<Option<i64>>, ()> {
    let mut d: Vec<Option<i64>> = vec![None; g.n];
    d[s] = Some(0);
    let mut arcs: Vec<(usize, usize, i64)> = vec![];
    for &(u, v, w) in &g.edges {
        arcs.push((u, v, w));
        if !g.directed {
            arcs.push((v, u, w));
        }
    }
    for round in 0..=g.n {
        let mut changed = false;
        for &(u, v, w) in &arcs {
            if let Some(du) = d[u] {
                if d[v].map_or(true, |dv| du + w < dv) {
                    d[v] = Some(du + w);
                    changed = true;
                }
            }
        }
        if !changed {
            return Ok(d);
        }
        if round == g.n {
            return Err(());
        }
    }
    Ok(d)
}

/// Reference all-pairs: Err(()) iff any negative cycle exists.
pub fn fw_ref(g: &Abs) -> Result<Vec<Vec<Option<i64>>>, ()> {
    let n = g.n;
    let mut d: Vec<Vec<Option<i64>>> = vec![vec![None; n]; n];
    for i in 0..n {
        d[i][i] = Some(0);
    }
    for &(u, v, w) in &g.edges {
        if d[u][v].map_or(true, |x| w < x) {
            d[u][v] = Some(w);
        }
        if !g.directed && d[v][u].map_or(true, |x| w < x) {
            d[v][u] = Some(w);
        }
    }
    for k in 0..n {
        for i in 0..n {
            if let Some(a) = d[i][k] {
                for j in 0..n {
                    if let Some(b) = d[k][j] {
                        if d[i][j].map_or(true, |x| a + b < x) {
                            d[i][j] = Some(a + b);
                        }
                    }
                }
            }
        }
    }
    for i in 0..n {
        if d[i][i].unwrap() < 0 {
            return Err(());
        }
    }
    Ok(d)
}

/// own union-find for Kruskal etc.
pub struct Dsu(pub Vec<usize>);
impl Dsu {
    pub fn new(n: usize) -> Dsu {
        Dsu((0..n).collect())
    }
    pub fn find(&mut self, mut x: usize) -> usize {
        while self.0[x] != x {
            self.0[x] = self.0[self.0[x]];
            x = self.0[x];
        }
        x
    }
    pub fn union(&mut self, a: usize, b: usize) -> bool {
        let (a, b) = (self.find(a), self.find(b));
        if a == b {
            false
        } else {
            self.0[a] = b;
            true
        }
    }
}

/// minimum spanning forest weight (direction ignored) by sort-based Kruskal, and #components
pub fn msf_weight(g: &Abs) -> (i64, usize) {
    let mut es: Vec<(i64, usize, usize)> = g.edges.iter().map(|&(u, v, w)| (w, u, v)).collect();
    es.sort();
    let mut d = Dsu::new(g.n);
    let mut tot = 0;
    let mut comps = g.n;
    for (w, u, v) in es {
        if d.union(u, v) {
            tot += w;
            comps -= 1;
        }
    }
    (tot, comps)
}

/// is the (undirected view of the) edge set acyclic?
pub fn is_forest(n: usize, edges: &[(usize, usize)]) -> bool {
    let mut d = Dsu::new(n);
    edges.iter().all(|&(u, v)| d.union(u, v))
}
