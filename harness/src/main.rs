#![forbid(unsafe_code)]
//! pgmon - runtime monitors for petgraph (see /verif/DESIGN.md).
//! usage: pgmon <PROP> --seed N --from A --to B [--thorough] [--build NAME] [--hashes FILE]
//!              [--samples K] [--case IDX (replay one case verbosely)] [--small] [--budget-s S]

#[macro_use]
pub mod enc;
pub mod iterck;
pub mod abs;
pub mod corr;
pub mod cx;
#[macro_use]
pub mod dsmodel;
pub mod num;
pub mod oracle;
pub mod props;
pub mod rng;

use cx::{Cx, R};
use rng::Rng;
use std::sync::atomic::Ordering;
use std::time::{Duration, Instant};

fn driver(prop: &str) -> Option<(&'static str, fn(&mut Cx, &mut Rng) -> R)> {
    Some(match prop {
        "C01" => ("C01", props::c01::case),
        "C02" => ("C02", props::c02::case),
        "C03" => ("C03", props::c03::case),
        "C04" => ("C04", props::c04::case),
        "C05" => ("C05", props::c05::case),
        "C06" => ("C06", props::c06::case),
        "C07" => ("C07", props::c07::case),
        "C08" => ("C08", props::c08::case),
        "C09" => ("C09", props::c09::case),
        "C10" => ("C10", props::c10::case),
        "C11" => ("C11", props::c11::case),
        "C12" => ("C12", props::c12::case),
        "C13" => ("C13", props::c13::case),
        "C14" => ("C14", props::c14::case),
        "C15" => ("C15", props::c15::case),
        "C16" => ("C16", props::c16::case),
        "C17" => ("C17", props::c17::case),
        "C18" => ("C18", props::c18::case),
        "C19" => ("C19", props::c19::case),
        "C20" => ("C20", props::c20::case),
        "T00" => ("T00", selftest),
        _ => return None,
    })
}

/// harness self-test (manual): case 0 = unexpected #[track_caller] library panic, case 1 = harness panic
fn selftest(cx: &mut Cx, _rng: &mut Rng) -> R {
    if cx.case % 2 == 0 {
        let mut g = petgraph::Graph::<(), (), petgraph::Directed, u8>::with_capacity(0, 0);
        for _ in 0..300 {
            g.add_node(());
        }
    } else {
        let v: Vec<u32> = vec![];
        let _ = v[3];
    }
    Ok(())
}

fn main() {
    let args: Vec<String> = std::env::args().collect();
    if args.len() < 2 {
        eprintln!("usage: pgmon <PROP> --seed N --from A --to B ...");
        std::process::exit(2);
    }
    let (prop, f) = match driver(&args[1]) {
        Some(x) => x,
        None => {
            eprintln!("unknown property {}", args[1]);
            std::process::exit(2);
        }
    };
    let mut seed = 1u64;
    let mut from = 0u64;
    let mut to = 100u64;
    let mut thorough = false;
    let mut build = "native".to_string();
    let mut hashes: Option<String> = None;
    let mut samples = 0usize;
    let mut only: Option<u64> = None;
    let mut small = false;
    let mut hang_s = 60u64;
    let mut skip_ops: Vec<String> = vec![];
    let mut i = 2;
    while i < args.len() {
        let a = args[i].as_str();
        let mut val = || {
            i += 1;
            args[i].clone()
        };
        match a {
            "--seed" => seed = val().parse().unwrap(),
            "--from" => from = val().parse().unwrap(),
            "--to" => to = val().parse().unwrap(),
            "--thorough" => thorough = true,
            "--build" => build = val(),
            "--hashes" => hashes = Some(val()),
            "--samples" => samples = val().parse().unwrap(),
            "--case" => only = Some(val().parse().unwrap()),
            "--small" => small = true,
            "--hang-s" => hang_s = val().parse().unwrap(),
            "--skip-op" => skip_ops.push(val()),
            "--trace-cases" => cx::TRACE_CASES.store(true, std::sync::atomic::Ordering::Relaxed),
            _ => {
                eprintln!("unknown arg {}", a);
                std::process::exit(2);
            }
        }
        i += 1;
    }
    cx::install_panic_hook();
    let mut c = Cx::new(prop, seed, thorough, &build);
    c.small = small;
    c.skip_ops = skip_ops;
    c.want_samples = samples;
    let t0 = Instant::now();
    // in-process hang watchdog: a single case running longer than hang_s seconds is reported
    // as a suspected hang (exit code 3); the driver re-runs it alone to decide.
    if !cfg!(miri) {
        std::thread::spawn(move || {
            let mut last = (u64::MAX, 0u64);
            let mut since = Instant::now();
            loop {
                std::thread::sleep(Duration::from_millis(500));
                let cur = (
                    cx::PROGRESS_CASE.load(Ordering::Relaxed),
                    cx::PROGRESS_TICK.load(Ordering::Relaxed),
                );
                if cur != last {
                    last = cur;
                    since = Instant::now();
                } else if cur.0 != u64::MAX && since.elapsed() > Duration::from_secs(hang_s) {
                    println!("{{\"t\":\"hang\",\"case\":{}}}", cur.0);
                    std::process::exit(3);
                }
            }
        });
    }
    if let Some(k) = only {
        c.want_samples = 1;
        cx::run_cases(&mut c, k, k + 1, &f);
    } else {
        cx::run_cases(&mut c, from, to, &f);
    }
    let s = cx::summary(&c, t0.elapsed().as_secs_f64(), hashes.as_deref());
    println!("{}", s);
    if !c.harness_errors.is_empty() {
        std::process::exit(2);
    }
    std::process::exit(if c.viols.is_empty() { 0 } else { 1 });
}
