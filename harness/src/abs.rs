//! The abstract graph all oracles work on, and the workload families that generate it.

use crate::cx::H;
use crate::rng::Rng;

#[derive(Clone, Debug, PartialEq)]
pub struct Abs {
    pub n: usize,
    pub directed: bool,
    /// (source, target, weight); order = insertion order
    pub edges: Vec<(usize, usize, i64)>,
    /// generator family tag (for evidence / signatures only)
    pub family: &'static str,
}

impl Abs {
    pub fn new(n: usize, directed: bool) -> Abs {
        Abs {
            n,
            directed,
            edges: vec![],
            family: "manual",
        }
    }
    pub fn m(&self) -> usize {
        self.edges.len()
    }
    pub fn add(&mut self, u: usize, v: usize, w: i64) {
        debug_assert!(u < self.n && v < self.n);
        self.edges.push((u, v, w));
    }
    pub fn key(&self, u: usize, v: usize) -> (usize, usize) {
        if self.directed || u <= v {
            (u, v)
        } else {
            (v, u)
        }
    }
    pub fn has_loops(&self) -> bool {
        self.edges.iter().any(|e| e.0 == e.1)
    }
    pub fn has_parallel(&self) -> bool {
        let mut ks: Vec<(usize, usize)> = self.edges.iter().map(|e| self.key(e.0, e.1)).collect();
        ks.sort_unstable();
        ks.windows(2).any(|w| w[0] == w[1])
    }
    pub fn is_simple(&self) -> bool {
        !self.has_parallel()
    }
    pub fn hash(&self) -> u64 {
        let mut h = H::new();
        h.add(self.n as u64);
        h.add(self.directed as u64);
        for e in &self.edges {
            h.add(e.0 as u64);
            h.add(e.1 as u64);
            h.add(e.2 as u64);
        }
        h.0
    }
    pub fn describe(&self) -> String {
        format!(
            "Abs{{family={}, n={}, directed={}, edges={:?}}}",
            self.family, self.n, self.directed, self.edges
        )
    }
    /// out[u] = (v, edge index); for undirected graphs each non-loop edge appears at both ends,
    /// a self-loop once.
    pub fn out_adj(&self) -> Vec<Vec<(usize, usize)>> {
        let mut a = vec![vec![]; self.n];
        for (i, &(u, v, _)) in self.edges.iter().enumerate() {
            a[u].push((v, i));
            if !self.directed && u != v {
                a[v].push((u, i));
            }
        }
        a
    }
    pub fn in_adj(&self) -> Vec<Vec<(usize, usize)>> {
        if !self.directed {
            return self.out_adj();
        }
        let mut a = vec![vec![]; self.n];
        for (i, &(u, v, _)) in self.edges.iter().enumerate() {
            a[v].push((u, i));
        }
        a
    }
    /// adjacency ignoring direction
    pub fn und_adj(&self) -> Vec<Vec<(usize, usize)>> {
        let mut a = vec![vec![]; self.n];
        for (i, &(u, v, _)) in self.edges.iter().enumerate() {
            a[u].push((v, i));
            if u != v {
                a[v].push((u, i));
            }
        }
        a
    }
    /// cheapest edge weight u->v (respecting direction for directed graphs)
    pub fn min_w(&self, u: usize, v: usize) -> Option<i64> {
        self.edges
            .iter()
            .filter(|e| (e.0 == u && e.1 == v) || (!self.directed && e.0 == v && e.1 == u))
            .map(|e| e.2)
            .min()
    }
    pub fn has_edge(&self, u: usize, v: usize) -> bool {
        self.min_w(u, v).is_some()
    }
    pub fn relabel(&self, perm: &[usize]) -> Abs {
        Abs {
            n: self.n,
            directed: self.directed,
            edges: self
                .edges
                .iter()
                .map(|&(u, v, w)| (perm[u], perm[v], w))
                .collect(),
            family: self.family,
        }
    }
    pub fn dedup_simple(&mut self) {
        let mut seen = std::collections::BTreeSet::new();
        let d = self.directed;
        self.edges.retain(|&(u, v, _)| {
            let k = if d || u <= v { (u, v) } else { (v, u) };
            seen.insert(k)
        });
    }
    pub fn drop_loops(&mut self) {
        self.edges.retain(|e| e.0 != e.1);
    }
    pub fn union(&self, other: &Abs) -> Abs {
        let mut r = self.clone();
        r.n += other.n;
        for &(u, v, w) in &other.edges {
            r.edges.push((u + self.n, v + self.n, w));
        }
        r.family = "union";
        r
    }
}

#[derive(Clone, Copy, Debug)]
pub struct GenOpts {
    pub nmin: usize,
    pub nmax: usize,
    pub directed: Option<bool>,
    pub simple: bool,
    pub loops: bool,
    pub wlo: i64,
    pub whi: i64,
}

impl GenOpts {
    pub fn new(nmax: usize) -> GenOpts {
        GenOpts {
            nmin: 0,
            nmax,
            directed: None,
            simple: false,
            loops: true,
            wlo: 0,
            whi: 9,
        }
    }
    pub fn directed(mut self, d: bool) -> Self {
        self.directed = Some(d);
        self
    }
    pub fn simple(mut self, s: bool) -> Self {
        self.simple = s;
        self
    }
    pub fn loops(mut self, l: bool) -> Self {
        self.loops = l;
        self
    }
    pub fn weights(mut self, lo: i64, hi: i64) -> Self {
        self.wlo = lo;
        self.whi = hi;
        self
    }
    pub fn nmin(mut self, n: usize) -> Self {
        self.nmin = n;
        self
    }
}

fn w(rng: &mut Rng, o: &GenOpts) -> i64 {
    rng.range(o.wlo, o.whi)
}

pub const FAMILIES: &[&str] = &[
    "gnp", "gnp", "gnp", "tree", "forest", "path", "cycle", "star", "grid", "dag", "layered",
    "tournament", "bipartite", "oddcycle_tails", "petersen", "complete", "empty", "union",
    "cliques_dag", "blocks", "multi",
];

/// Random graph from a randomly chosen family.
pub fn gen(rng: &mut Rng, o: &GenOpts) -> Abs {
    let fam = *rng.pick(FAMILIES);
    gen_family(rng, o, fam)
}

pub fn gen_family(rng: &mut Rng, o: &GenOpts, fam: &'static str) -> Abs {
    let directed = o.directed.unwrap_or_else(|| rng.coin());
    let lo = o.nmin.min(o.nmax);
    let n = if rng.chance(1, 12) {
        rng.urange(lo, o.nmax.min(lo + 2))
    } else {
        rng.urange(lo, o.nmax)
    };
    let mut g = Abs::new(n, directed);
    g.family = fam;
    match fam {
        "gnp" => {
            let dens = [5u32, 15, 30, 50, 80][rng.below(5)];
            for u in 0..n {
                for v in 0..n {
                    if !directed && v < u {
                        continue;
                    }
                    if u == v && !o.loops {
                        continue;
                    }
                    let p = if u == v { dens / 3 + 1 } else { dens };
                    if rng.chance(p, 100) {
                        if rng.coin() || directed {
                            g.add(u, v, w(rng, o));
                        } else {
                            g.add(v, u, w(rng, o));
                        }
                    }
                }
            }
        }
        "tree" | "forest" => {
            for v in 1..n {
                if fam == "forest" && rng.chance(1, 4) {
                    continue;
                }
                let u = rng.below(v);
                if rng.coin() {
                    g.add(u, v, w(rng, o));
                } else {
                    g.add(v, u, w(rng, o));
                }
            }
        }
        "path" | "cycle" => {
            for v in 1..n {
                g.add(v - 1, v, w(rng, o));
            }
            if fam == "cycle" && n >= 2 {
                g.add(n - 1, 0, w(rng, o));
            }
            if directed && rng.chance(1, 3) {
                // flip a few arcs
                for e in g.edges.iter_mut() {
                    if rng.chance(1, 4) {
                        std::mem::swap(&mut e.0, &mut e.1);
                    }
                }
            }
        }
        "star" => {
            for v in 1..n {
                if rng.coin() {
                    g.add(0, v, w(rng, o));
                } else {
                    g.add(v, 0, w(rng, o));
                }
            }
        }
        "grid" => {
            let cols = if n == 0 { 1 } else { rng.urange(1, n.min(4)) };
            for v in 0..n {
                if (v + 1) % cols != 0 && v + 1 < n {
                    g.add(v, v + 1, w(rng, o));
                }
                if v + cols < n {
                    g.add(v, v + cols, w(rng, o));
                }
            }
        }
        "dag" => {
            let order = rng.perm(n);
            let dens = [10u32, 25, 50, 90][rng.below(4)];
            for i in 0..n {
                for j in (i + 1)..n {
                    if rng.chance(dens, 100) {
                        g.add(order[i], order[j], w(rng, o));
                    }
                }
            }
        }
        "layered" => {
            let layers = rng.urange(1, 4);
            let lay: Vec<usize> = (0..n).map(|_| rng.below(layers)).collect();
            for u in 0..n {
                for v in 0..n {
                    if lay[u] + 1 == lay[v] && rng.chance(50, 100) {
                        g.add(u, v, w(rng, o));
                    }
                }
            }
        }
        "tournament" => {
            for u in 0..n {
                for v in (u + 1)..n {
                    if rng.coin() {
                        g.add(u, v, w(rng, o));
                    } else {
                        g.add(v, u, w(rng, o));
                    }
                }
            }
        }
        "bipartite" => {
            let side: Vec<bool> = (0..n).map(|_| rng.coin()).collect();
            for u in 0..n {
                for v in (u + 1)..n {
                    if side[u] != side[v] && rng.chance(45, 100) {
                        if rng.coin() {
                            g.add(u, v, w(rng, o));
                        } else {
                            g.add(v, u, w(rng, o));
                        }
                    }
                }
            }
        }
        "oddcycle_tails" => {
            // odd cycle(s) with tails: blossom territory
            if n >= 3 {
                let mut c = rng.urange(3, n.min(7));
                if c % 2 == 0 {
                    c -= 1;
                }
                for v in 0..c {
                    g.add(v, (v + 1) % c, w(rng, o));
                }
                for v in c..n {
                    let u = rng.below(v);
                    g.add(u, v, w(rng, o));
                }
                if rng.coin() && n > c + 1 {
                    let a = rng.below(n);
                    let b = rng.below(n);
                    if a != b {
                        g.add(a, b, w(rng, o));
                    }
                }
            }
        }
        "petersen" => {
            if n >= 10 {
                for i in 0..5 {
                    g.add(i, (i + 1) % 5, w(rng, o));
                    g.add(i, i + 5, w(rng, o));
                    g.add(5 + i, 5 + (i + 2) % 5, w(rng, o));
                }
            } else {
                // wheel
                for v in 1..n {
                    g.add(0, v, w(rng, o));
                    if v + 1 < n {
                        g.add(v, v + 1, w(rng, o));
                    }
                }
            }
        }
        "complete" => {
            for u in 0..n {
                for v in 0..n {
                    if u == v || (!directed && v < u) {
                        continue;
                    }
                    g.add(u, v, w(rng, o));
                }
            }
        }
        "empty" => {
            if rng.coin() && o.loops {
                for v in 0..n {
                    if rng.coin() {
                        g.add(v, v, w(rng, o));
                    }
                }
            }
        }
        "union" => {
            let mut o1 = *o;
            o1.directed = Some(directed);
            o1.nmax = o.nmax / 2;
            o1.nmin = 0;
            let f1 = *rng.pick(&["gnp", "tree", "cycle", "dag", "complete", "path"]);
            let f2 = *rng.pick(&["gnp", "tree", "cycle", "dag", "empty", "star"]);
            let a = gen_family(rng, &o1, f1);
            let b = gen_family(rng, &o1, f2);
            g = a.union(&b);
            // respect nmin by padding with isolated nodes
            if g.n < lo {
                g.n = lo;
            }
        }
        "cliques_dag" => {
            // strongly connected blobs arranged in a DAG
            let k = rng.urange(1, 4);
            let comp: Vec<usize> = (0..n).map(|_| rng.below(k)).collect();
            for c in 0..k {
                let members: Vec<usize> = (0..n).filter(|&v| comp[v] == c).collect();
                for i in 0..members.len() {
                    if members.len() > 1 {
                        g.add(members[i], members[(i + 1) % members.len()], w(rng, o));
                    }
                }
            }
            for u in 0..n {
                for v in 0..n {
                    if comp[u] < comp[v] && rng.chance(20, 100) {
                        g.add(u, v, w(rng, o));
                    }
                }
            }
        }
        "blocks" => {
            // biconnected blocks glued at cut vertices
            let mut v = 0usize;
            while v + 1 < n {
                let size = rng.urange(2, 4).min(n - v);
                let anchor = if v == 0 { 0 } else { rng.below(v + 1) };
                let mut members = vec![anchor];
                for x in 0..size {
                    if v + 1 + x < n {
                        members.push(v + 1 + x);
                    }
                }
                for i in 0..members.len() {
                    let a = members[i];
                    let b = members[(i + 1) % members.len()];
                    if a != b && (members.len() > 2 || i == 0) {
                        g.add(a, b, w(rng, o));
                    }
                }
                v += size;
            }
        }
        "multi" => {
            let mut o1 = *o;
            o1.directed = Some(directed);
            let bf = *rng.pick(&["gnp", "tree", "cycle", "dag", "path"]);
            let base = gen_family(rng, &o1, bf);
            g = base;
            g.family = "multi";
            let m = g.edges.len();
            for i in 0..m {
                if rng.chance(1, 3) {
                    let (u, v, _) = g.edges[i];
                    let k = rng.urange(1, 2);
                    for _ in 0..k {
                        if rng.coin() || directed {
                            g.add(u, v, w(rng, o));
                        } else {
                            g.add(v, u, w(rng, o));
                        }
                    }
                }
            }
            if o.loops && g.n > 0 {
                for _ in 0..rng.below(3) {
                    let v = rng.below(g.n);
                    g.add(v, v, w(rng, o));
                }
            }
        }
        _ => unreachable!("family {}", fam),
    }
    if !o.loops {
        g.drop_loops();
    } else if g.n > 0 && rng.chance(1, 6) {
        let v = rng.below(g.n);
        let ww = w(rng, o);
        g.add(v, v, ww);
    }
    if o.simple {
        g.dedup_simple();
    }
    if rng.chance(1, 3) {
        let mut e = std::mem::take(&mut g.edges);
        rng.shuffle(&mut e);
        g.edges = e;
    }
    g
}

/// Signed weights without negative cycles: w(u,v) = c + p(u) - p(v), c >= 0 (directed only makes
/// sense; for undirected graphs any negative edge is a negative cycle).
pub fn reweight_potentials(rng: &mut Rng, g: &mut Abs, cmax: i64, pmax: i64) {
    let p: Vec<i64> = (0..g.n).map(|_| rng.range(0, pmax)).collect();
    for e in g.edges.iter_mut() {
        let c = rng.range(0, cmax);
        e.2 = c + p[e.0] - p[e.1];
    }
}

/// The convex complete DAG w(i,j) = (j-i)^2, in forward or reverse insertion order.
pub fn convex_dag(n: usize, reverse_insert: bool) -> Abs {
    let mut g = Abs::new(n, true);
    g.family = "convex_dag";
    for i in 0..n {
        for j in (i + 1)..n {
            g.add(i, j, ((j - i) * (j - i)) as i64);
        }
    }
    if reverse_insert {
        g.edges.reverse();
    }
    g
}
