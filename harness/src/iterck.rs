//! Iterator-protocol monitor: every iterator a query hands out is not only drained with `next()` but also
//! observed through the rest of the `Iterator` contract the library may have overridden:
//!   * `size_hint()` before every step must bracket the number of items that are really still to come,
//!   * `ExactSizeIterator::len()` must equal it,
//!   * `count()`, `last()`, `nth(k)` (and what follows it) and `fold` must agree with the plain `next()` drain,
//!   * a `DoubleEndedIterator` consumed from both ends in an arbitrary interleaving must hand out every item
//!     exactly once: front part + reversed back part == forward drain.
//! Only the trait contracts of std are demanded (no fusedness, no particular hint tightness).
use crate::cx::{Cx, R};
use std::fmt::Debug;

/// Drains at most `cap` items, checking `size_hint` before every `next()` once the true remaining count is known.
pub fn drain<I: Iterator>(cx: &mut Cx, mut it: I, cap: usize, id: &str) -> R<Vec<I::Item>> {
    let mut hints = vec![it.size_hint()];
    let mut out = vec![];
    let mut ended = false;
    while out.len() < cap {
        match it.next() {
            Some(x) => {
                out.push(x);
                hints.push(it.size_hint());
            }
            None => {
                ended = true;
                break;
            }
        }
    }
    if ended {
        cx.count("iter_size_hint_checked");
        for (k, &(lo, hi)) in hints.iter().enumerate() {
            let rem = out.len() - k;
            let ok = lo <= rem && hi.map_or(true, |h| h >= rem);
            cx.ensure(ok, &format!("{}:size_hint", id), || format!("after {} of {} items size_hint() = ({}, {:?}) but {} items were still to come", k, out.len(), lo, hi, rem))?;
        }
    }
    Ok(out)
}

/// `drain` plus `ExactSizeIterator::len` at every step.
pub fn drain_exact<I: ExactSizeIterator>(cx: &mut Cx, mut it: I, cap: usize, id: &str) -> R<Vec<I::Item>> {
    let mut lens = vec![(it.len(), it.size_hint())];
    let mut out = vec![];
    let mut ended = false;
    while out.len() < cap {
        match it.next() {
            Some(x) => {
                out.push(x);
                lens.push((it.len(), it.size_hint()));
            }
            None => {
                ended = true;
                break;
            }
        }
    }
    if ended {
        cx.count("iter_exact_len_checked");
        for (k, &(l, (lo, hi))) in lens.iter().enumerate() {
            let rem = out.len() - k;
            cx.ensure(l == rem && lo == rem && hi == Some(rem), &format!("{}:len", id), || format!("after {} of {} items len() = {}, size_hint() = ({}, {:?}); {} items were still to come", k, out.len(), l, lo, hi, rem))?;
        }
    }
    Ok(out)
}

/// `count`, `last`, `nth`, `fold` against the `next()` drain. `mk` builds a fresh iterator each time, `proj` makes items comparable.
pub fn adapters<I: Iterator, T: PartialEq + Debug, F: Fn() -> I, P: Fn(I::Item) -> T>(cx: &mut Cx, mk: F, proj: P, cap: usize, id: &str, salt: usize) -> R {
    if cx.small {
        // interpreter legs: one call in eight (these paths hold no unsafe code; the native legs run them all)
        cx.tick += 1;
        if cx.tick % 8 != 0 {
            return Ok(());
        }
    }
    let base: Vec<T> = drain(cx, mk(), cap, id)?.into_iter().map(&proj).collect();
    if base.len() >= cap {
        return Ok(());
    }
    cx.count("iter_adapters_checked");
    let n = base.len();
    let c = mk().count();
    cx.ensure(c == n, &format!("{}:count", id), || format!("count() = {}, next() yields {} items: {:?}", c, n, base))?;
    let l = mk().last().map(&proj);
    cx.ensure(l.as_ref() == base.last(), &format!("{}:last", id), || format!("last() = {:?}, next() drain is {:?}", l, base))?;
    for k in [salt % (n + 2), 0, n.saturating_sub(1)] {
        let mut it = mk();
        let x = it.nth(k).map(&proj);
        cx.ensure(x.as_ref() == base.get(k), &format!("{}:nth", id), || format!("nth({}) = {:?}, next() drain is {:?}", k, x, base))?;
        if k < n {
            let hint = it.size_hint();
            let rest: Vec<T> = it.take(cap).map(&proj).collect();
            cx.ensure(rest[..] == base[k + 1..], &format!("{}:nth-then-rest", id), || format!("after nth({}) the rest is {:?}, next() drain is {:?}", k, rest, base))?;
            let rem = n - k - 1;
            cx.ensure(hint.0 <= rem && hint.1.map_or(true, |h| h >= rem), &format!("{}:size_hint", id), || format!("after nth({}) size_hint() = {:?} but {} items were still to come", k, hint, rem))?;
        }
    }
    let f: Vec<T> = mk().fold(Vec::new(), |mut v, x| {
        if v.len() <= cap {
            v.push(proj(x));
        }
        v
    });
    cx.ensure(f == base, &format!("{}:fold", id), || format!("fold visits {:?}, next() drain is {:?}", f, base))?;
    Ok(())
}

/// Consumes a double-ended iterator from both ends in the interleaving given by the bits of `salt`.
pub fn double_ended<I: DoubleEndedIterator, T: PartialEq + Debug, F: Fn() -> I, P: Fn(I::Item) -> T>(cx: &mut Cx, mk: F, proj: P, cap: usize, id: &str, salt: usize) -> R {
    if cx.small {
        // interpreter legs: one call in eight (these paths hold no unsafe code; the native legs run them all)
        cx.tick += 1;
        if cx.tick % 8 != 0 {
            return Ok(());
        }
    }
    let base: Vec<T> = mk().take(cap).map(&proj).collect();
    if base.len() >= cap {
        return Ok(());
    }
    cx.count("iter_double_ended_checked");
    let n = base.len();
    let mut bits = crate::rng::mix(salt as u64, 0x9e3779b97f4a7c15);
    let mut it = mk();
    let (mut front, mut back) = (vec![], vec![]);
    let mut script = String::new();
    for _ in 0..n + 2 {
        let taken = front.len() + back.len();
        let (lo, hi) = it.size_hint();
        let rem = n.saturating_sub(taken);
        cx.ensure(taken > n || (lo <= rem && hi.map_or(true, |h| h >= rem)), &format!("{}:size_hint", id), || format!("after [{}] size_hint() = ({}, {:?}) but {} items were still to come", script, lo, hi, rem))?;
        let from_front = bits & 1 == 0;
        bits = bits.rotate_right(1);
        script.push(if from_front { 'f' } else { 'b' });
        let x = if from_front { it.next() } else { it.next_back() };
        match x {
            Some(x) => {
                if from_front {
                    front.push(proj(x))
                } else {
                    back.push(proj(x))
                }
            }
            None => break,
        }
    }
    back.reverse();
    front.extend(back);
    cx.ensure(front == base, &format!("{}:next/next_back-interleaved", id), || format!("script [{}] (f = next, b = next_back) hands out {:?}, forward drain is {:?}", script, front, base))?;
    Ok(())
}
