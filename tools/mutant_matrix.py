#!/usr/bin/env python3
"""Run every seeded breakage (seeded/<id>/patch.diff) against the check of its property: apply the patch to /repo's
working tree, run `./check <PROP> --tier quick`, undo the patch, record the outcome in seeded/<id>/meta.json
("detection") and regenerate seeded/MATRIX.md.
usage: tools/mutant_matrix.py [ids...] [--legs debug] [--matrix-only]
  --legs L   restrict the legs of the quick check (sets VERIF_LEGS; recorded in the result)
Mutants listed in TIER run the thorough tier with the named legs instead (changes only an interpreter / sanitizer can see)."""
import json, os, subprocess, sys, time

VERIF = os.path.dirname(os.path.dirname(os.path.abspath(__file__)))
SEEDED = os.path.join(VERIF, "seeded")
# extra checks worth trying for a mutant besides the check of its own property
ALSO = {"C07-b": ["C16"], "C18-a": ["C06"], "C06-b": ["C09"], "C12-b": ["C07"], "C09-a": ["C07"], "C16-b": ["C07"]}


def sh(cmd, **kw):
    return subprocess.run(cmd, shell=True, capture_output=True, text=True, **kw)


# changes whose only effect is undefined behaviour (no wrong value, no panic): decided by the thorough tier's Miri leg
TIER = {"C01-e": ("thorough", "miri")}
LEGS = None


def run_one(name, prop):
    d = os.path.join(SEEDED, name)
    if sh("git -C /repo diff --quiet").returncode != 0:
        raise SystemExit("/repo is dirty")
    a = sh("git -C /repo apply %s/patch.diff" % d)
    if a.returncode != 0:
        return {"check": "%s quick" % prop, "applied": False, "note": a.stderr.strip()[:200]}
    t0 = time.time()
    try:
        tier, legs = TIER.get(name, ("quick", LEGS)) if prop == name.split("-")[0] else ("quick", LEGS)
        env = dict(os.environ)
        if legs:
            env["VERIF_LEGS"] = legs
        r = sh("cd %s && ./check %s --tier %s" % (VERIF, prop, tier), timeout=7200, env=env)
    finally:
        sh("git -C /repo checkout -- .")
    sigs = [l.strip().split(" :: ")[0] for l in r.stderr.splitlines() if l.startswith("  " + prop + "/")]
    nviol = sum(1 for l in r.stdout.splitlines() if l.startswith("VIOLATION"))
    return {"check": "./check %s --tier %s" % (prop, tier) + (" (legs: %s)" % legs if legs else ""), "applied": True, "harness_commit": sh("git -C %s rev-parse --short HEAD" % VERIF).stdout.strip(), "exit_code": r.returncode, "detected": r.returncode == 1 and nviol > 0,
            "new_violation_signatures": nviol, "first_signatures": sigs[:4], "wall_s": round(time.time() - t0, 1),
            "repo_head": sh("git -C /repo rev-parse --short HEAD").stdout.strip(), "seed": int(os.environ.get("VERIF_SEED", "1"))}


def main():
    global LEGS
    args = sys.argv[1:]
    if "--legs" in args:
        i = args.index("--legs")
        LEGS = args[i + 1]
        del args[i:i + 2]
    names = [a for a in args if not a.startswith("--")]
    if not names:
        names = sorted(n for n in os.listdir(SEEDED) if os.path.isdir(os.path.join(SEEDED, n)))
    for name in names:
        prop = name.split("-")[0]
        mp = os.path.join(SEEDED, name, "meta.json")
        meta = json.load(open(mp))
        det = meta.setdefault("detection", {})
        for p in [prop] + ALSO.get(name, []):
            res = run_one(name, p)
            det[p] = res
            print(name, p, "DETECTED" if res.get("detected") else "missed", res.get("first_signatures", [])[:1], res.get("wall_s"), flush=True)
        meta["breaks_property"] = prop
        json.dump(meta, open(mp, "w"), indent=1)
    write_matrix()


def write_matrix():
    rows = []
    for name in sorted(os.listdir(SEEDED)):
        mp = os.path.join(SEEDED, name, "meta.json")
        if not os.path.exists(mp):
            continue
        meta = json.load(open(mp))
        notes = open(os.path.join(SEEDED, name, "notes.md")).read().strip().splitlines()
        title = next((l.strip("# ").strip() for l in notes if l.strip()), "")
        for p, res in sorted(meta.get("detection", {}).items()):
            rows.append("| %s | %s | %s | %s | %s |" % (name, title[:110].replace("|", "/"), res.get("check", p).replace("./check ", ""), "caught" if res.get("detected") else ("n/a" if not res.get("applied", True) else "MISSED"),
                                                  (res.get("first_signatures") or [""])[0].replace("|", "/")[:90]))
    with open(os.path.join(SEEDED, "MATRIX.md"), "w") as f:
        f.write("# Seeded breakages vs. checks (seed 1; the check column says which tier / legs were run)\n\n| mutant | what it changes | check | result | first signature |\n|---|---|---|---|---|\n")
        f.write("\n".join(rows) + "\n")


if __name__ == "__main__":
    if "--matrix-only" in sys.argv:
        write_matrix()
    else:
        main()
