#!/usr/bin/env python3
"""Replace the table of DESIGN.md 13.1 with the current seeded/MATRIX.md."""
import os
V = os.path.dirname(os.path.dirname(os.path.abspath(__file__)))
s = open(os.path.join(V, "DESIGN.md")).read()
m = open(os.path.join(V, "seeded", "MATRIX.md")).read().split("\n", 2)[2].strip()
a = s.index("| mutant | what it changes | check | result | first signature |")
b = s.index("### 13.2")
s = s[:a] + m + "\n\n" + s[b:]
open(os.path.join(V, "DESIGN.md"), "w").write(s)
print("ok")
