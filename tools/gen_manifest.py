#!/usr/bin/env python3
"""Regenerate /verif/MANIFEST.json from the table below (keeps it valid at all times)."""
import json, subprocess, os
VERIF = os.path.dirname(os.path.dirname(os.path.abspath(__file__)))
props = [json.loads(l) for l in open(os.path.join(VERIF, 'properties.jsonl'))]

# property -> (technique, level text, level note, design ref)
CHECKS = {
 "C08": ("runtime monitoring: reachability-oracle monitors on walker output + offline trace checker (stack automaton) over the recorded depth_first_search event log, on generated graphs x 9 encodings x adaptors",
         "Exploration. Every walker sequence and every DFS event stream produced by the real code on ~1.6*10^6 generated graphs per quick run is judged by an independent oracle (closure / BFS hop distances / trace automaton); a violation needs one offending execution, silence means the oracle agreed on all executions observed.",
         "Oracles in harness/src/oracle.rs and props/c08.rs are trusted; graphs are small (n<=13, a 1/150 share up to 70 nodes); the Prune-on-edge-event clause is checked only in the form every reading of the documentation supports.", "DESIGN.md 5/C08"),
 "C09": ("runtime monitoring: definition-level oracle (boolean reachability closure) over results of the real algorithms on generated graphs x all instantiable encodings, incl. reused DfsSpace across calls and graphs",
         "Exploration. SCC partitions + order, component counts, path queries for all pairs, cycle predicates, bipartiteness, toposort (Ok/Err, order, witness) and condensation are compared with a closure-based oracle on ~1.6*10^6 generated multigraphs per quick run.",
         "Closure/BFS oracles trusted (cross-checked against each other every case); n<=14, a 1/150 share up to 70 nodes.", "DESIGN.md 5/C09"),
 "C10": ("runtime monitoring: exact-distance oracle (reference Bellman-Ford), path certificate checker and k-smallest-walk multiset fixpoint over results of the real algorithms on generated weighted multigraphs x 9 encodings x 4 cost types",
         "Exploration. dijkstra maps (with/without goal), astar results under zero/consistent/random admissible-inconsistent heuristics and goal sets, and k_shortest_path maps are compared for equality with exact oracles on ~2.5*10^6 generated inputs per quick run.",
         "Oracles trusted; integer-valued costs so float sums are exact; n<=12, k<=5.", "DESIGN.md 5/C10"),
 "C11": ("runtime monitoring: reference Bellman-Ford / Floyd-Warshall over Option<i64> plus certificate checkers (tight predecessor tree, closed negative walk, prev-path cost) over results of the real algorithms on signed-weight workloads incl. adversarial insertion orders",
         "Exploration. Err/Ok verdicts, every distance, every predecessor and every returned cycle are checked on ~1.9*10^6 generated signed-weight graphs per quick run, including negative edges combined with unreachable nodes, negative self-loops and the convex complete DAG that drives label-correcting algorithms to exponential re-relaxation.",
         "Reference implementations trusted; |w| small so no sum overflows (overflow is outside the statement); n<=11.", "DESIGN.md 5/C11"),
 "C12": ("runtime monitoring: independent sort-based Kruskal (own union-find) + structural certificate checker over the real element stream (node prefix, membership multiset, acyclicity, edge count n-c, total weight), Kruskal on 9 encodings, Prim on 8, from_elements round trip",
         "Exploration. Every element stream is judged for all clauses of the statement on ~2.5*10^6 generated weighted multigraphs per quick run (ties, NaN weights on self-loops, parallel edges of different weight, disconnected inputs, vacancies).",
         "Reference Kruskal trusted; integer-valued weights.", "DESIGN.md 5/C12"),
 "C15": ("runtime monitoring: validity/accessor-consistency checker + bitmask-DP optimum (n<=16) and an independent Edmonds-blossom optimum (n<=70, cross-checked against the DP on every small case) for matchings; feasibility, conservation and min-cut certificate (residual reachability of the returned flow) for ford_fulkerson, on blossom-prone and cancellation-forcing workload families",
         "Exploration. ~2.5*10^6 generated inputs per quick run (incl. capacities at the maximum of the capacity type); a matching must be valid and of optimal size, a flow must come with a cut of equal capacity - certificates, so no second flow implementation is trusted.",
         "DP / blossom oracles trusted; capacities small integers; the documented known finding (directed storage) is matched by exact signature only.", "DESIGN.md 5/C15"),
 "C16": ("runtime monitoring: node-deletion oracles (dominance and cut vertices by definition) over results of the real algorithms on generated graphs x encodings, every root, all four accessors",
         "Exploration. ~2.5*10^6 generated graphs per quick run; dominator sets, immediate dominators, strict sets, dominated-by sets and articulation-point sets are compared for equality with definition-level oracles.",
         "Deletion oracles trusted; n<=13, a 1/150 share up to 40 nodes.", "DESIGN.md 5/C16"),
 "C13": ("runtime monitoring: exhaustive-search oracle (all injective maps preserving adjacency, non-adjacency and predicates) compared with the booleans and the full mapping set produced by the real VF2 code on generated near-isomorphic pairs; relabeling-invariance monitor; patterns of 12-24 nodes that are induced subgraphs of the target by construction, every yielded mapping validated",
         "Exploration. ~8*10^5 generated pairs per quick run (relabelled copies, one-edge edits, 2-switches, induced subgraphs, tiny patterns), five functions, three predicate regimes; the iterator is consumed through take(|S|+1) so non-termination on a pattern is decided on a logical count.",
         "Exhaustive search trusted; n0<=6, n1<=7 (by-construction class: positives only).", "DESIGN.md 5/C13"),
 "C20": ("runtime monitoring: per-algorithm specification oracles (subset enumeration for maximal cliques and the Steiner optimum, properness/colour-range checker, acyclicity of the remainder, closure-derived reduction/closure, DFS path enumeration, rank-vector invariants and relabeling equivariance) over results of the real code",
         "Exploration. ~6.4*10^5 cases x 6 inputs per quick run, every algorithm on its documented domain and on every encoding that satisfies its bounds.",
         "Oracles trusted; sizes n<=11 (cliques), n<=9 (Steiner optimum), tolerance 1e-9 only for page_rank.", "DESIGN.md 5/C20"),
 "C01": ("runtime monitoring: reference-model monitor (compact multigraph with unique weight ids) over generated operation histories on the real Graph, full observation sweep of every public query after each mutation, iterator-protocol monitor (size_hint/len/count/last/nth/fold/next_back of every iterator handed out), hook site counters; ASan + Miri legs for the unsafe index_twice paths",
         "Exploration. ~1.6*10^4 histories / 3*10^6 operations per quick run in debug and release (clone_from into populated destinations included); each return value and every query (ordered where the documentation fixes the order) is compared with the model; implementation-defined numbering is checked against its constraint and adopted by unique ids.",
         "Model in harness/src/dsmodel.rs + props/c01.rs trusted; u32/usize index limits unreachable (u8 is driven to its limit).", "DESIGN.md 5/C01"),
 "C02": ("runtime monitoring: index-stable reference-model monitor over generated histories on the real StableGraph, observation sweep, raw free-list invariant probe through the verif-hooks exporter, boundary probes that trigger the library's own debug self-check, equal volume in debug and release; ASan + Miri legs",
         "Exploration. ~2.5*10^4 histories per quick run with frequent failing try_* calls and vacancies; 'unchanged after failure' is decided by the full sweep + raw-state comparison after every failing call.",
         "Model trusted; which vacancy is reused is not predicted (checked: not live, then adopted).", "DESIGN.md 5/C02"),
 "C05": ("runtime monitoring: set / list reference models over generated insertion histories on the real Csr and adj::List, rows driven across the 32-entry binary-search cutoff (both branches confirmed by hook counters), from_sorted_edges accept/reject oracle, every returned EdgeIndex re-resolved; ASan + Miri legs",
         "Exploration. ~1.9*10^5 histories per quick run; every query incl. raw row/column arrays compared with the model after each sweep point.",
         "Models trusted; index-width overflow of these two types is undocumented and not driven; Build::update_edge on List is exercised in range only ('might panic').", "DESIGN.md 5/C05"),
 "C19": ("runtime monitoring: partition-model monitor (label vector) over generated call histories on the real UnionFind incl. out-of-range arguments and documented panics, representative-stability monitor between unions, raw parent/rank invariant probe; ASan + Miri legs for the get_unchecked paths",
         "Exploration. ~4.8*10^5 histories per quick run over four index widths (u8 up to all 256 elements).",
         "Model trusted.", "DESIGN.md 5/C19"),
 "C03": ("runtime monitoring: simple-graph reference-model monitor over generated operation histories on the real GraphMap (3 node-value types x 2 edge types x 3 hashers incl. an all-collide hasher), full sweep of every query for every key and ordered pair after every operation, indexing-bijection and conversion monitors",
         "Exploration. ~4.8*10^4 histories per quick run; return values, the complete observable state and the iterator protocol of every iterator are compared with the model after each operation; into_graph is probed at the u8 index limit.",
         "Model trusted; key universe of 12 values per type.", "DESIGN.md 5/C03"),
 "C04": ("runtime monitoring: simple-graph reference-model monitor keyed by node id over generated histories on the real MatrixGraph (growth runs across capacity steps, removal / id reuse), plus a storage probe through the verif-hooks exporter (occupied cells == model edges, nb_edges, removed ids); ASan + Miri legs for the unsafe row relocation",
         "Exploration. ~8*10^4 histories per quick run; both row-move branches and both id-allocation branches are confirmed reached by hook counters.",
         "Model trusted; mutations only between existing nodes (the property's domain).", "DESIGN.md 5/C04"),
 "C06": ("runtime monitoring: visit-trait consistency checker (one expected edge list per view, computed by the harness) applied to every graph type in hole-ridden states and to Reversed / UndirectedAdaptor / NodeFiltered / EdgeFiltered / Frozen and depth-2 stackings",
         "Exploration. ~4.8*10^5 generated states per quick run x up to 20 views each; every trait method (and the iterator protocol of every trait iterator) is compared with the expected view for every node and ordered pair.",
         "Checker trusted; UndirectedAdaptor self-loops accepted once or twice; two known-finding signatures (UndirectedAdaptor::edges orientation) are matched exactly.", "DESIGN.md 5/C06"),
 "C14": ("runtime monitoring: index-free DAG reference model (unique weights) over generated histories on the real Acyclic<DiGraph> / Acyclic<StableDiGraph>, invariant monitor after every operation (acyclicity, order lists exactly the live nodes, edges forward, range/position consistency, raw order maps via the verif-hooks exporter), is_valid_edge prediction monitor",
         "Exploration. ~3.2*10^5 histories per quick run with frequent rejected insertions, conversions from graphs with a removal history, removals of non-last nodes and removals of absent nodes.",
         "Model trusted; insertions only between live nodes (absent-node insertion is undocumented).", "DESIGN.md 5/C14"),
 "C07": ("runtime monitoring: differential monitor - one generated abstract graph is built in every feasible encoding (9: narrow/wide index types, shuffled histories, vacancies, removed ids, all six graph types) and every algorithm/walker that type-checks runs on each, judged by the same oracle / certificate checker as in C08-C16/C20; a panic, overrun or hang on one encoding is a violation",
         "Exploration. ~1.3*10^5 abstract graphs x up to 9 encodings x ~30 algorithms per quick run; the (algorithm group x encoding) cells hit are counted in the evidence.",
         "Oracles trusted; n<=10; two known-finding signatures (page_rank on sparse indices, maximum_matching on directed storage) are matched exactly.", "DESIGN.md 5/C07"),
 "C17": ("runtime monitoring: round-trip monitor (model sweep of the deserialised value) over graphs reached by mutation histories through serde_json and bincode, and hostile-input monitor (structural JSON mutations, byte-level bincode mutations, over-size u8 streams): every accepted value is swept for self-consistency incl. raw free-list invariants and then exercised with further operations; a panic during deserialisation is a violation; ASan leg",
         "Exploration. ~3.2*10^5 streams per quick run; a process abort (allocation failure from a hostile length prefix) is localised, confirmed and attributed through its backtrace.",
         "Model/sweeps trusted; allocation sizes bounded so that an allocation failure cannot occur; one known-finding signature (index-type-filling graph rejected) is matched exactly.", "DESIGN.md 5/C17"),
 "C18": ("runtime monitoring: independent byte-level graph6 encoder/decoder (written from the format text) compared with the real encoder/decoder on five graph types; DOT tokenizer + parser over the real Dot output compared statement by statement with the graph, adversarial weight strings (also written piecewise through write_char / short write_str pieces), all 160 Config combinations enumerated by case index",
         "Exploration. ~1.9*10^5 cases per quick run; graph6 for n in 0..=70 (thorough: up to ~320 nodes), the 258047-node end of the range is out of reach and stated as such.",
         "The harness' graph6 codec and DOT parser are trusted; attribute getters are not exercised (caller's responsibility).", "DESIGN.md 5/C18"),
}
REASON_PENDING = "check under construction in this round (runtime monitoring applies; see DESIGN.md section 5)"

def hook_commits():
    out = subprocess.run(['git', '-C', '/repo', 'log', '--format=%h %s'], capture_output=True, text=True).stdout
    return [l.split()[0] for l in out.splitlines() if l.split(' ', 1)[1].startswith('verif-hooks')]

m = {
 "version": 1,
 "setup_cmd": "./check --build",
 "hooks": {
  "guard": "cargo feature `verif-hooks` of package petgraph (off by default, not part of `default` or `all`)",
  "enable": "harness/Cargo.toml depends on petgraph = { path = \"/repo\", features = [\"serde-1\", \"verif-hooks\"] }; every ./check run does cargo build against /repo's working tree",
  "baseline_off_cmd": "cd /repo && cargo test --workspace --no-fail-fast --offline",
  "source_commits": hook_commits(),
  "add_only": True,
 },
 "engines": [
  {"name": "pgmon", "path": "harness/", "serves_properties": sorted(CHECKS), "kind_free_text": "Rust harness: workload generators, reference models, oracles, trace checkers, invariant probes over hooks; one process per shard, JSON summary per process"},
  {"name": "check", "path": "check", "serves_properties": sorted(CHECKS), "kind_free_text": "python driver: builds from /repo's tree, shards over 16 cores (native debug+release, ASan, Miri legs), watchdogs, known-findings matching, evidence + replay files"},
 ],
 "checks": [],
 "not_applicable": [],
 "notes": "All verdicts are three-valued (held on what was observed / violated with replay / inconclusive); see DESIGN.md 2.6. known_findings.json lists genuine defects recorded rather than repaired and the fix: commits.",
}
for p in props:
    pid = p['id']
    if pid in CHECKS:
        tech, text, note, ref = CHECKS[pid]
        m["checks"].append({
            "property_id": pid,
            "quick_cmd": "./check %s --tier quick" % pid,
            "thorough_cmd": "./check %s --tier thorough" % pid,
            "evidence_file": "/verif/evidence/%s.json" % pid,
            "replay_cmd_template": "./check --replay {path}",
            "engine": "pgmon",
            "level_claimed": {"category": "exploration", "text": text, "design_ref": ref},
            "level_note": note,
            "technique": tech,
        })
    else:
        m["not_applicable"].append({"property_id": pid, "reason": REASON_PENDING})
json.dump(m, open(os.path.join(VERIF, 'MANIFEST.json'), 'w'), indent=1)
print("checks:", [c['property_id'] for c in m['checks']])
