#!/bin/bash
# usage: confirm_mutant.sh <mutant-dir (patch.diff, demo.rs)> <name> [extra cargo feature args]
# Confirms in a scratch worktree (/tmp/confirm/wt): suite passes with change, demo fails with change, demo passes without.
set -u
dir=$1; name=$2; shift 2; feats="$*"
WT=${CONFIRM_WT:-/tmp/confirm/wt}
mkdir -p /tmp/confirm
if [ ! -d $WT ]; then git -C /repo worktree add -q --detach $WT HEAD || exit 2; fi
cd $WT || exit 2
git checkout -q --detach $(git -C /repo rev-parse HEAD) 2>/dev/null
git checkout -q -- . ; rm -f tests/demo_mut.rs
out=/tmp/confirm/$name.result
: > $out
if ! git apply --check "$dir/patch.diff" 2>>$out; then echo "APPLY=fail" >> $out; exit 1; fi
git apply "$dir/patch.diff"
export CARGO_NET_OFFLINE=true
# 1. stock suite with change
cargo test --workspace --no-fail-fast --offline > /tmp/confirm/$name.suite.log 2>&1
suite_rc=$?
nfail=$(grep -c "^test .* FAILED" /tmp/confirm/$name.suite.log)
echo "SUITE_WITH_CHANGE rc=$suite_rc failed_tests=$nfail" >> $out
# 2. demo with change
cp "$dir/demo.rs" tests/demo_mut.rs
cargo test --offline $feats --test demo_mut > /tmp/confirm/$name.demo_with.log 2>&1
echo "DEMO_WITH_CHANGE rc=$?" >> $out
# 3. demo without change
git checkout -q -- src Cargo.toml
cargo test --offline $feats --test demo_mut > /tmp/confirm/$name.demo_without.log 2>&1
echo "DEMO_WITHOUT_CHANGE rc=$?" >> $out
rm -f tests/demo_mut.rs
git checkout -q -- .
cat $out
