#!/bin/bash
# usage: tools/try_revert.sh <fix-commit> <PROP> [tier]  -- reverse-applies a fix commit in /repo's working tree, runs the check, restores
set -u
c=$1; prop=$2; tier=${3:-quick}
cd /repo || exit 2
if ! git diff --quiet; then echo "repo dirty"; exit 2; fi
git show "$c" | git apply -R 2>/dev/null || { git show "$c" | git apply -R --3way && git reset -q; } || { echo "cannot reverse-apply"; git checkout -- .; exit 2; }
cd /verif
./check "$prop" --tier "$tier" > /tmp/try_revert.out 2>/tmp/try_revert.err
rc=$?
git -C /repo checkout -- .
echo "revert $c ($(git -C /repo log --format=%s -1 $c | cut -c1-70)) -> rc=$rc"; grep -E "VIOLATION|KNOWN" /tmp/try_revert.out | head -3; grep -E "^  C|ERROR" /tmp/try_revert.err | head -6; tail -1 /tmp/try_revert.err
