#!/bin/bash
# usage: tools/try_mutant.sh <patch.diff> <PROP> [tier]   -- applies patch to /repo, runs check, reverts
set -u
patch=$(realpath $1); prop=$2; tier=${3:-quick}
cd /repo || exit 2
if ! git diff --quiet; then echo "repo dirty"; exit 2; fi
git apply "$patch" || { echo "patch does not apply"; exit 2; }
cd /verif
./check "$prop" --tier "$tier" > /tmp/try_mutant.out 2>/tmp/try_mutant.err
rc=$?
git -C /repo checkout -- .
echo "rc=$rc"; grep -E "VIOLATION|KNOWN" /tmp/try_mutant.out | head -5; grep -E "^  C|ERROR" /tmp/try_mutant.err | head -8; tail -1 /tmp/try_mutant.err
