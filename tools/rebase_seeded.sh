#!/bin/bash
# Re-express every seeded patch against /repo HEAD (hook insertions shift context); keeps the original as patch.orig.diff
cd /repo || exit 2
git diff --quiet || { echo "repo dirty"; exit 2; }
for d in /verif/seeded/*/; do
  n=$(basename $d)
  if git apply --check $d/patch.diff 2>/dev/null; then echo "$n ok"; continue; fi
  if patch -p1 --fuzz=3 --no-backup-if-mismatch -s < $d/patch.diff >/dev/null 2>&1; then
     [ -f $d/patch.orig.diff ] || cp $d/patch.diff $d/patch.orig.diff
     git diff > $d/patch.diff
     echo "$n rebased with fuzz"
  else
     echo "$n FAILED"
  fi
  git checkout -q -- . ; find . -name "*.rej" -o -name "*.orig" | grep -v target | xargs -r rm -f
done
