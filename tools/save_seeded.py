#!/usr/bin/env python3
"""save_seeded.py <mutdir> <name e.g. C09-a> : copy a confirmed mutant into /verif/seeded/<name>/ with meta.json"""
import json, os, shutil, subprocess, sys
src, name = sys.argv[1], sys.argv[2]
prop = name.split('-')[0]
res = open('/tmp/confirm/%s.result' % name).read()
import re
mode = (re.search(r'DEMO_WITH_CHANGE\((\w+)\)', res) or [None, 'debug'])[1]
ok = ('SUITE_WITH_CHANGE rc=0 failed_tests=0' in res and re.search(r'DEMO_WITH_CHANGE(\(\w+\))? rc=(101|1)\b', res) is not None
      and re.search(r'DEMO_WITHOUT_CHANGE(\(\w+\))? rc=0\b', res) is not None)
if not ok:
    print('NOT CONFIRMED', name, res); sys.exit(1)
dst = '/verif/seeded/%s' % name
os.makedirs(dst, exist_ok=True)
shutil.copy(os.path.join(src, 'patch.diff'), dst)
shutil.copy(os.path.join(src, 'demo.rs'), dst)
notes = open(os.path.join(src, 'notes.md')).read() if os.path.exists(os.path.join(src, 'notes.md')) else ''
open(os.path.join(dst, 'notes.md'), 'w').write(notes)
head = subprocess.run(['git', '-C', '/repo', 'rev-parse', '--short', 'HEAD'], capture_output=True, text=True).stdout.strip()
meta = {
    "id": name, "property": prop,
    "origin": "independent sub-agent given only the property record and a scratch worktree",
    "needs_to_manifest": "see notes.md (written by the sub-agent)",
    "confirmed": {
        "by": "tools/confirm_mutant.sh in a scratch worktree of /repo at %s" % head,
        "suite_with_change": "cargo test --workspace --no-fail-fast --offline: all tests pass",
        "demo_with_change": {"debug": "cargo test --offline --test demo_mut: FAILS", "release": "cargo test --offline --release --test demo_mut: FAILS (the plain debug run passes: the change is masked by debug assertions)", "miri": "cargo +nightly miri test --offline --test demo_mut: Miri reports Undefined Behavior (the native run passes: every returned value is still correct)"}[mode],
        "demo_without_change": "cargo test --offline --test demo_mut: passes",
    },
    "detection": {},
}
mp = os.path.join(dst, 'meta.json')
if os.path.exists(mp):
    old = json.load(open(mp)); meta['detection'] = old.get('detection', {})
json.dump(meta, open(mp, 'w'), indent=1)
print('saved', dst)
