#!/bin/bash
# quick.sh PROP [N] [seed]: run N cases in the debug build and print a digest
cd /verif/harness && cargo build 2>&1 | grep -E "^error" -A20 | head -60
./target/debug/pgmon $1 --seed ${3:-1} --from 0 --to ${2:-3000} --samples 1 | python3 -c "
import json,sys
for l in sys.stdin:
    d=json.loads(l)
    if d.get('t')=='summary':
        print({k:v for k,v in d.items() if k not in ('samples','violations','counters','sites')})
        print({k:v for k,v in d['sites'].items() if v})
        print(json.dumps(d['counters'])[:1800])
        for v in d['violations'][:12]:
            print('VIOL',v['sig'],'|',v['what'][:300],'| count',v['count'], '| case', v['case'])
            for h in v['history'][:6]: print('     ',h[:400])
    else: print(d)
"
