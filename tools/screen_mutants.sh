#!/bin/bash
# usage: screen_mutants.sh <root> ID...   quick screening (debug leg only) of <root>/<ID>.out/{a,b}/patch.diff against ./check <ID>
root=$1; shift
for id in "$@"; do for m in a b; do
  s=$(date +%s)
  out=$(VERIF_LEGS=debug /verif/tools/try_mutant.sh $root/$id.out/$m/patch.diff $id 2>&1)
  rc=$(echo "$out" | grep -o "^rc=[0-9]*" | head -1)
  sig=$(echo "$out" | grep -E "^  C" | head -1 | cut -c1-200)
  echo "$id/$m $rc $(( $(date +%s)-s ))s | $sig"
done; done
