#!/bin/bash
# usage: confirm_batch.sh <srcroot e.g. /tmp/mut2> <suffix-for-a> <suffix-for-b> ID...   (4 scratch worktrees in parallel)
# e.g. confirm_batch.sh /tmp/mut2 c d C01 C02  -> confirms /tmp/mut2/C01.out/a as C01-c, .../b as C01-d, ...
root=$1; sa=$2; sb=$3; shift 3
mkdir -p /tmp/confirm
for id in "$@"; do echo "$root/$id.out/a $id-$sa"; echo "$root/$id.out/b $id-$sb"; done > /tmp/confirm/batch.$$.list
export CARGO_NET_OFFLINE=true
cat /tmp/confirm/batch.$$.list | xargs -P 4 -L 1 bash -c 'slot=$(( $$ % 997 )); feats=""; case "$1" in C17-*) feats="--features serde-1";; esac; CONFIRM_WT=/tmp/confirm/wt-$slot /verif/tools/confirm_mutant.sh $0 $1 $feats > /dev/null 2>&1; rm -rf /tmp/confirm/wt-$slot/target; git -C /repo worktree remove --force /tmp/confirm/wt-$slot 2>/dev/null; echo "$1 $(tr "\n" " " < /tmp/confirm/$1.result)"'
rm -f /tmp/confirm/batch.$$.list
