"""Per-property workload sizes, builds, targeted hook sites and non-triviality rules."""

ASSUMPTIONS = [
    "the harness' own reference models / oracles (harness/src) are correct; they are small, naive and cross-checked",
    "std, hashbrown, indexmap, fixedbitset, serde_json, bincode are trusted",
    "coverage is exactly what is counted here: nothing is claimed about inputs the workloads did not produce",
]


def T(quick, thorough, floor=200, **kw):
    q = {"cases_per_shard": quick, "legs": ["debug", "release"], "floor": floor}
    t = {"cases_per_shard": thorough, "legs": ["debug", "release"], "floor": floor}
    q.update(kw.pop("q", {}))
    t.update(kw.pop("t", {}))
    d = {"quick": q, "thorough": t}
    d.update(kw)
    return d


PROPS = {
    "C10": T(10000, 250000,
             rule="random non-negatively weighted multigraph (21 families, n<=7, 10%: n<=12; weight ranges 0..9, 1..2 ties, "
                  "0..1 zero-cost cycles, 0..30) on one random encoding of 9, cost type u32/i64/f32/f64; dijkstra with and "
                  "without goal, astar with zero/exact/random-admissible heuristics and 1-3 goals, k_shortest_path k in 1..5; "
                  "non-trivial = >=3 nodes and >=2 edges; distinct = distinct (n, directedness, weighted edge list) hash"),
    "C08": T(5000, 120000,
             rule="random multigraph (21 families, n<=8, 10%: n<=13) on one random encoding of 9 (all graph types; "
                  "Reversed/NodeFiltered/EdgeFiltered/UndirectedAdaptor views in 1/3 of the cases); walkers from a random "
                  "start incl. move_to/reset; depth_first_search under random Continue/Prune/Break/Err scripts in the "
                  "Control, () and Result<Control,_> flavours, whole event log checked offline by a stack automaton; "
                  "non-trivial = >=3 nodes and >=2 edges; distinct = distinct (n, directedness, edge list) hash"),
    "C09": T(6000, 150000,
             rule="random multigraph from 21 families (n<=9, 10%: n<=14), one random encoding per algorithm group; "
                  "non-trivial = >=3 nodes and >=2 edges; distinct = distinct (n, directedness, edge list) hash"),
}
