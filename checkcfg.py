"""Per-property workload sizes, builds, targeted hook sites and non-triviality rules."""

ASSUMPTIONS = [
    "the harness' own reference models / oracles (harness/src) are correct; they are small, naive and cross-checked",
    "std, hashbrown, indexmap, fixedbitset, serde_json, bincode are trusted",
    "coverage is exactly what is counted here: nothing is claimed about inputs the workloads did not produce",
]


def T(quick, thorough, floor=200, **kw):
    q = {"cases_per_shard": quick, "legs": ["debug", "release"], "floor": floor}
    t = {"cases_per_shard": thorough, "legs": ["debug", "release"], "floor": floor}
    q.update(kw.pop("q", {}))
    t.update(kw.pop("t", {}))
    d = {"quick": q, "thorough": t}
    d.update(kw)
    return d


PROPS = {
    "C09": T(6000, 150000,
             rule="random multigraph from 21 families (n<=9, 10%: n<=14), one random encoding per algorithm group; "
                  "non-trivial = >=3 nodes and >=2 edges; distinct = distinct (n, directedness, edge list) hash"),
}
