"""Per-property workload sizes, builds, targeted hook sites and non-triviality rules."""

ASSUMPTIONS = [
    "the harness' own reference models / oracles (harness/src) are correct; they are small, naive and cross-checked",
    "std, hashbrown, indexmap, fixedbitset, serde_json, bincode are trusted",
    "coverage is exactly what is counted here: nothing is claimed about inputs the workloads did not produce",
]


def T(quick, thorough, floor=200, **kw):
    q = {"cases_per_shard": quick, "legs": ["debug", "release"], "floor": floor, "hang_s": 20}
    t = {"cases_per_shard": thorough, "legs": ["debug", "release"], "floor": floor, "hang_s": 60}
    q.update(kw.pop("q", {}))
    t.update(kw.pop("t", {}))
    d = {"quick": q, "thorough": t}
    d.update(kw)
    return d


PROPS = {
    "C18": T(6000, 8000,
             rule="graph6 (40% of the cases): simple undirected graph on n nodes, n in 0..=70 with 61..64 and 0..3 over-sampled (thorough: "
                  "also 100..320), 10 families; graph6_string() on Graph (shuffled history), StableGraph with vacancies, GraphMap, "
                  "MatrixGraph with removed ids and Csr must equal the harness' own byte-level encoder applied to the adjacency in "
                  "node_identifiers order, and from_graph6_string of an independently encoded string must rebuild exactly the graph in "
                  "all five types. Dot (60%): graphs with node/edge weight strings over an adversarial alphabet (quotes, backslashes, "
                  "newlines, CR, brackets, braces, '->', 'label', a full injected statement, trailing backslash) in StableGraph with "
                  "holes, Graph, Csr, MatrixGraph with a removed id and a NodeFiltered view; 3 of the 160 Config combinations per case "
                  "(one enumerated by case index, so all 160 are covered) x Display/Debug/{:#}/{:#?}; output tokenized and parsed by "
                  "the harness' DOT parser and compared statement by statement; non-trivial = >=3 nodes and >=2 edges (graph6) / >=2 "
                  "nodes and >=1 edge (Dot); distinct = hash of the input"),
    "C17": T(10000, 150000, sites=["serde_link_edges_graph", "serde_link_edges_stable"],
             t={"legs": ["debug", "release", "asan"], "asan_cases_per_shard": 8000},
             rule="six workload kinds: (1) round trips of StableGraphs reached by mutation histories (vacancies frequent) through JSON "
                  "and bincode, 2 edge types x 4 index widths, loaded back as StableGraph and as Graph, plus the compact Graph copy "
                  "loaded as Graph and as StableGraph, wrong-edge-property loads; (2) String / () / Option<i8> weights and GraphMap; "
                  "(3) u8 graphs with 253-255 nodes and 250-255 edges; (4) structural JSON mutations (endpoint := hole/bound/beyond, "
                  "duplicate/unsorted/excess/out-of-range holes, null edges, flipped edge_property, truncated arrays, wrong types, "
                  "malformed tuples, removed fields); (5) u8 streams with 245-258 nodes, 0-13 holes and up to 257 edge slots; (6) "
                  "bincode bit flips, truncation, byte edits, splices; every accepted value is swept against the model read off it, "
                  "raw free-list invariants and boundary probes are run and ~10 further operations applied; non-trivial = source "
                  "graph has >=2 nodes; distinct = hash of the (mutated) stream"),
    "C07": T(4000, 120000,
             rule="one random weighted multigraph per case (21 families, n<=7, 12%: n<=10) built in EVERY feasible encoding: Graph<u8> "
                  "direct, Graph<u16> through a shuffled history with junk removed, Graph<usize> permuted, StableGraph<u32>/<u8> with "
                  "vacancies, GraphMap with sparse labels, MatrixGraph with removed ids, Csr, adj::List; on each encoding every "
                  "algorithm that type-checks (tarjan/kosaraju/toposort/Topo/has_path/cycle tests/bipartite/connected_components, "
                  "Dfs/Bfs/DfsPostOrder/depth_first_search, dijkstra/astar/k_shortest_path, bellman_ford/spfa/floyd_warshall, "
                  "min_spanning_tree(+prim), matchings, ford_fulkerson, dominators, articulation_points, cliques, dsatur, "
                  "feedback arc set, all_simple_paths, page_rank) is judged by the same oracle / certificate checker, so unique "
                  "answers are equal across encodings and non-unique ones equally valid and optimal; a panic on one encoding is a "
                  "violation; non-trivial = >=3 nodes and >=2 edges; distinct = weighted edge-list hash; cells hit are listed in observed"),
    "C06": T(15000, 300000,
             rule="random multigraph (21 families, n<=7, 10%: n<=12) stored in one of the 9 encodings (Graph via shuffled history, "
                  "StableGraph with vacancies at index 0 / inside / trailing, MatrixGraph with removed ids, GraphMap with sparse labels, "
                  "Csr, adj::List); the visit-trait checker compares node_identifiers/node_references/node_count/node_bound/to_index/"
                  "from_index, edge_references/edge_count, neighbors/edges (+_directed), is_adjacent for all ordered pairs and "
                  "EdgeIndexable against the edge list the harness expects; the same checker runs on Reversed, UndirectedAdaptor, "
                  "NodeFiltered (closure / FixedBitSet / HashSet, 4 predicate kinds), EdgeFiltered, Frozen and 7 depth-2 stackings with "
                  "the expected view computed by the harness; non-trivial = >=3 nodes and >=2 edges; distinct = edge-list hash"),
    "C14": T(10000, 300000, sites=["acyclic_reorder", "acyclic_no_reorder"],
             rule="operation histories on Acyclic<DiGraph<u32,u32,Ix>> and Acyclic<StableDiGraph<..>> (4 index widths; 20-250 ops: add_node, "
                  "try_add_edge / try_update_edge / Build::add_edge / Build::update_edge between random live pairs (self-loops, "
                  "cycle-closing and order-violating edges frequent), remove_edge present/absent, remove_node preferring non-last "
                  "nodes, removal of already removed / out-of-range nodes, clone; 1/3 start from try_from_graph/TryFrom on a random "
                  "digraph; 8 late insertions at the end) against an index-free DAG model on unique weights; after every operation: "
                  "inner graph == model, acyclicity, nodes_iter/get_position/at_position/range invariants, raw order maps via the "
                  "verif-hooks exporter; is_valid_edge must predict every verdict; non-trivial = >=10 ops, >=1 removal of a non-last "
                  "node, >=1 edge at the end; distinct = hash of (type config, op-kind sequence, final edge set)"),
    "C04": T(2500, 80000, sites=["matrix_grow_overlapping", "matrix_grow_nonoverlapping", "matrix_id_reused", "matrix_id_fresh"],
             t={"legs": ["debug", "release", "asan", "miri"], "asan_cases_per_shard": 2000, "miri_cases_per_shard": 8},
             rule="operation histories on MatrixGraph<u32,i32,_,Ty,Null,Ix> (directed/undirected x Option/NotZero x u8/u16/u32/usize; "
                  "30-700 ops between existing nodes: add_node/try_add_node, add_edge, update_edge, try_update_edge, add_or_update_edge, "
                  "remove_node, remove_edge/try_remove_edge in either orientation, weight updates, clear, extend_with_edges); half of "
                  "the histories are growth runs from new()/with_capacity(0..70) up to 10-70 nodes that keep adding edges into freshly "
                  "grown regions (both row-move branches counted by hooks); 1/12 of the u8 histories run into the node limit; against a "
                  "simple-graph model keyed by node id; sweeps of every query + raw storage (occupied cells == model edges, nb_edges, "
                  "removed ids) after every op (<=14 nodes) or every 12th; non-trivial = >=10 ops, >=1 node removal, >=3 nodes at the "
                  "end; distinct = hash of (type config, op-kind sequence, final edge set)"),
    "C03": T(1500, 30000,
             rule="operation histories on GraphMap<N,u32,Ty,S> (N in i32 incl. negatives/extremes, (u8,u8), &str; directed/undirected; "
                  "hashers RandomState, Fx and an all-keys-collide hasher; 20-300 ops: add_node, add_edge/Build::add_edge/update_edge "
                  "biased to self-loops, reciprocal pairs and re-adding, remove_edge in either orientation, remove_node of hubs, weight "
                  "updates via 3 routes, clear, extend, clone, into_graph/from_graph, absent-element calls) over 3-12 distinct keys, "
                  "against a simple-graph model; full sweep of every query for every key and ordered pair after every operation, "
                  "incl. the visit-trait views and node/edge indexing bijections; non-trivial = >=10 ops with >=1 effective removal; "
                  "distinct = hash of (type config, op-kind sequence, final edge set)"),
    "C02": T(800, 25000, sites=["stable_reuse_vacant_node", "stable_reuse_vacant_edge", "stable_add_vacant_node"],
             t={"legs": ["debug", "release", "asan", "miri"], "asan_cases_per_shard": 1200, "miri_sb_skip_ops": ["index_twice_mut"], "miri_cases_per_shard": 8},
             rule="operation histories on StableGraph<u32,u32,Ty,Ix> (2 edge types x 4 index widths; 30-400 ops out of 15 kinds incl. "
                  "failing try_add_edge/try_update_edge/try_add_node, removal of vacant / out-of-range indices, reverse and clear_edges "
                  "with vacancies, retain_*, map, filter_map, extend_with_edges targeting vacant indices and indices beyond the bound, "
                  "clone, Graph::from / StableGraph::from, index_twice_mut; 8-35% absent arguments biased to vacant slots; 1/6 of the u8 "
                  "histories fill the index space first) against an index-stable multigraph model; after every mutation (<=14 slots) "
                  "a full sweep + raw free-list invariants from the verif-hooks exporter; boundary probes (retain_*(true), identity "
                  "filter_map = the library's own debug self-check) during and after, then 10 more valid operations; debug and "
                  "release at equal volume; non-trivial = >=10 ops and >=1 node vacancy at some point; distinct = hash of (op-kind "
                  "sequence, final structure)"),
    "C01": T(500, 10000, sites=["graph_index_twice_one", "graph_index_twice_both", "graph_remove_node_swapped", "graph_remove_edge_swapped"],
             t={"legs": ["debug", "release", "asan", "miri"], "asan_cases_per_shard": 1200, "miri_sb_skip_ops": ["index_twice_mut"], "miri_cases_per_shard": 8},
             rule="operation histories on Graph<u32,u32,Ty,Ix> (2 edge types x u8/u16/u32/usize; 30-400 ops out of 16 kinds: add/try_add/"
                  "Build::add node+edge, update_edge, remove_edge, remove_node, weight mutation via 3 routes, reverse, clear(_edges), "
                  "retain_nodes/edges, map, filter_map, extend_with_edges, clone(_from), into_edge_type round trip, Graph<->StableGraph, "
                  "into_nodes_edges, index_twice_mut incl. via Frozen, capacity ops; 5-30% absent-index arguments; from_edges / "
                  "from_elements / with_capacity starts; 1/6 of the u8 histories first fill to 255 nodes and ~255 edges) against the "
                  "compact multigraph model with unique weight ids; full observation sweep after every mutation on graphs <= 12 nodes; "
                  "non-trivial = >=10 ops incl. >=1 removal-type op; distinct = hash of (op-kind sequence, final structure)"),
    "C05": T(6000, 200000, sites=["csr_find_linear", "csr_find_binary"],
             t={"legs": ["debug", "release", "asan", "miri"], "asan_cases_per_shard": 2500, "miri_cases_per_shard": 12},
             rule="Csr histories (directed/undirected x u8/u16/u32/usize; 20-500 ops: add_node, add_edge/try_add_edge towards hub "
                  "rows of length 0..80 in ascending/descending/random target order, 8% out-of-range endpoints, clear_edges, clone) "
                  "against a set model with first-weight-wins, full sweeps incl. raw row/column arrays; Csr::from_sorted_edges on "
                  "sorted unique lists (must equal edge-by-edge insertion in random order) and 4 perturbations (must be rejected); "
                  "adj::List histories (add_node*, add_edge incl. parallel, Build::update_edge, clear, clone, out-of-range panics) "
                  "against a Vec<Vec<>> model, every EdgeIndex ever returned re-resolved at each sweep; non-trivial = >=3 nodes and "
                  ">=3 edges at the end; distinct = hash of (type, final structure)"),
    "C19": T(15000, 400000, sites=["unionfind_halving_step"],
             t={"legs": ["debug", "release", "asan", "miri"], "asan_cases_per_shard": 4000, "miri_cases_per_shard": 12},
             rule="operation histories (30-400 calls; new/new_empty/with_capacity + new_set growth, union/try_union, find/find_mut/"
                  "try_find*, equiv/try_equiv, into_labeling on a clone, clone, capacity ops, 20% out-of-range arguments len/len+1/max) "
                  "over u8 (incl. all 256 elements)/u16/u32/usize against a label-vector model; sweeps of all pairs; raw parent/rank "
                  "arrays via the verif-hooks exporter; non-trivial = >=4 elements and >=2 merging unions; distinct = hash of "
                  "(index type, final partition, history length)"),
    "C20": T(20000, 400000,
             rule="per case six generated inputs, each algorithm on its documented domain: undirected simple loop-free graph (n<=8, "
                  "12%: n<=11) for maximal_cliques + dsatur (plus trees/bipartite up to 16 nodes for the k<=2 clause) on one of 8 "
                  "encodings; directed multigraph for greedy_feedback_arc_set (6 encodings); simple (mostly directed) graph for "
                  "all_simple_paths, 3 random (a!=b, min in 0..3, max in None/0..3 incl. min>max) queries, 7 encodings; random DAG for "
                  "tred; undirected weighted graph + 2-4 terminals for steiner_tree (OPT by subset enumeration); directed multigraph for "
                  "page_rank on pairs of differently labelled encodings; non-trivial = at least 4 of the 6 inputs have >=3 nodes and "
                  ">=2 edges; distinct = hash of all six inputs"),
    "C13": T(25000, 500000,
             rule="pairs of simple graphs (self-loops optional, directed or undirected; n0<=6, n1<=7; node labels from <=3 kinds, edge "
                  "labels 0/1): relabelled copies, one-edge edits, degree-preserving 2-switches, induced subgraphs +- one edge, tiny "
                  "(0/1-node) patterns, independent pairs; all five functions on Graph, the two unlabelled ones also on GraphMap; "
                  "predicates none / == / <= (non-symmetric); full mapping set compared with exhaustive search; "
                  "non-trivial = pattern >=2 nodes, target >=3 nodes and >=2 edges; distinct = hash of both graphs"),
    "C15": T(80000, 1500000,
             rule="matching: graph from blossom-prone families (odd cycles with tails, Petersen, blocks, sparse gnp, multigraphs; "
                  "75% undirected, n<=9, 12%: n<=14) on one random encoding of 9, both algorithms, all accessors, optimum by bitmask DP; "
                  "flow: directed capacitated multigraph (antiparallel/parallel edges, loops, zero capacities) or the flow_cancel family "
                  "(shortest augmenting path must later be cancelled), random s!=t, Graph/StableGraph-with-holes, u32/u64/f64; "
                  "non-trivial = both inputs have >=3 nodes and >=2 edges; distinct = hash of both inputs"),
    "C16": T(80000, 1800000,
             rule="dominators: random (mostly directed) multigraph from 21 families (reducible and irreducible flow graphs, "
                  "unreachable parts), random root, n<=8 (10%: n<=13), one random encoding of 9; articulation points: random "
                  "undirected multigraph with loops on one encoding of 8; non-trivial = both inputs have >=3 nodes and >=2 edges; distinct = hash of both edge lists"),
    "C12": T(80000, 1800000,
             rule="random weighted multigraph (21 families incl. disconnected unions, parallel edges of different weight, loops; "
                  "n<=9, 10%: n<=14; weights 1..2 ties / 0..9 / -5..20; i64 or f64) on one random encoding of 9 for Kruskal and "
                  "(undirected inputs) one of 8 for Prim, plus from_elements on a StableGraph with a hole; "
                  "non-trivial = >=3 nodes and >=2 edges; distinct = distinct weighted edge-list hash"),
    "C11": T(60000, 1500000,
             rule="signed-weight workloads: potential-reweighted digraphs (negative edges, no negative cycle), random signed, one lowered "
                  "edge, negative self-loop only, convex complete DAG w(i,j)=(j-i)^2 in both insertion orders (also on an "
                  "order-preserving Graph), undirected with/without a negative edge; n<=7 (10%: n<=11); bellman_ford+find_negative_cycle "
                  "(f32/f64), spfa (i32/i64/f64), floyd_warshall(_path) (i32/i64/f64) each on one random encoding; "
                  "non-trivial = >=3 nodes, >=2 edges and at least one negative edge; distinct = distinct weighted edge-list hash"),
    "C10": T(80000, 1800000,
             rule="random non-negatively weighted multigraph (21 families, n<=7, 10%: n<=12; weight ranges 0..9, 1..2 ties, "
                  "0..1 zero-cost cycles, 0..30) on one random encoding of 9, cost type u32/i64/f32/f64; dijkstra with and "
                  "without goal, astar with zero/exact/random-admissible heuristics and 1-3 goals, k_shortest_path k in 1..5; "
                  "non-trivial = >=3 nodes and >=2 edges; distinct = distinct (n, directedness, weighted edge list) hash"),
    "C08": T(50000, 1200000,
             rule="random multigraph (21 families, n<=8, 10%: n<=13) on one random encoding of 9 (all graph types; "
                  "Reversed/NodeFiltered/EdgeFiltered/UndirectedAdaptor views in 1/3 of the cases); walkers from a random "
                  "start incl. move_to/reset; depth_first_search under random Continue/Prune/Break/Err scripts in the "
                  "Control, () and Result<Control,_> flavours, whole event log checked offline by a stack automaton; "
                  "non-trivial = >=3 nodes and >=2 edges; distinct = distinct (n, directedness, edge list) hash"),
    "C09": T(50000, 600000,
             rule="random multigraph from 21 families (n<=9, 10%: n<=14), one random encoding per algorithm group; "
                  "non-trivial = >=3 nodes and >=2 edges; distinct = distinct (n, directedness, edge list) hash"),
}
